"""C04 -- NFC-DEP delivers each payload exactly once, intact, or reports failure.

Spec: spec/NfcDep.tla (exhaustive on scaled constants via MC_NfcDep.tla: every payload of 1..3 chunks in
both directions, every fate script up to the fault bound, PNI wrap).  Binding: a real nfc.dep.Initiator
and a real nfc.dep.Target, each under its own ContactlessFrontend over the simulated air (sim/air.py),
activated for real; conversations (systematically enumerated fate scripts and long random ones) are
recorded frame by frame and validated by spec/Trace_NfcDep.tla, which predicts every frame from the
payloads and the fates and evaluates the C04 invariants after every step.

Sessions: the same two objects are activated again and again, each time with the parameters of THAT session
(session_specs: DID, NAD, general bytes present in one session and absent in the next or the other way round, LR,
bit rate, technology, waiting time changed).  Every attribute the objects keep is session state in the spec (cf,
assigned by Reactivate / Established); the recorder reads what the objects hold after activate() and, independently,
what the activation established (options, ATR frames on the air); the spec predicts the traffic from the former and
invariant SessAttr says both are the same.  MC_NfcDep_sess explores every ordered pair of session configurations,
MC_NfcDep_stale predicts that an attribute kept from an earlier session breaks delivery on a fault-free link.
"""
import json, random, itertools, zlib, concurrent.futures as cf
from vlib import tlc, check

import nfc
import nfc.clf
import nfc.dep
from sim.air import Air, AirStall, DELIVER, LOSE, CORRUPT

PID = "C04"
LR = (64, 128, 192, 254)
R_TICKS = 2                    # the response waiting time is 2 ticks; timeouts are odd numbers of ticks
STALL = 600.0                  # real seconds a port may wait for its peer's thread before the run is aborted (exit 2)
BIG = 1.0e6                    # target side exchange() timeout (the spec assumes it never expires)

K_ACK = "OneFaultOk:corrupted-ACK-while-initiator-chains:NAK-answered-by-ACK-rejected"
K_ATN = "OneFaultOk:DID-in-use:ATN-sent-without-DID-is-ignored-by-target"
K_MIU = "FrameFits:target-frame-with-DID-exceeds-LRi-by-1"
K_TPNI = "FirstPni:re-activated-target-keeps-PNI-of-previous-session:first-request-taken-for-a-retransmission"
K_IPNI = "FirstPni:re-activated-initiator-starts-with-the-PNI-of-the-previous-session"
K_DID0 = "OneFaultOk:did=0:initiator-sends-DID-byte-0-after-announcing-no-DID:target-ignores-every-PDU"
K_STALE = "OneFaultOk:no-frame-lost-or-corrupted-yet-exchange-fails:object-holds-%s-of-an-earlier-session"
K_LEN = "OnlyCommErr:Target.exchange-raised-Other:struct.error"        # LEN byte 256 (DID, LRi=254)


# ------------------------------------------------------------------ payloads (same functions in Trace_NfcDep.tla)
def pbyte(d, pid, pos):
    return (pid * 37 + pos * 101 + (pos // 256) * 59 + (11 if d == "I" else 73)) % 256


def payload(d, pid, n):
    return bytes(pbyte(d, pid, k) for k in range(n))


def sig(data):
    acc = len(data) % 65521
    for b in data:
        acc = (acc * 31 + b + 1) % 65521
    return acc


def gbtok(data):
    """general bytes (bytes, or hex string as in a conversation spec) -> token (0: none)"""
    if isinstance(data, str):
        data = bytes.fromhex(data)
    return 0 if not data else 1 + sig(bytes(data)) % 1000


def brty_of(cfg):
    """the bit rate a session runs at, by the protocol rule (PSL_REQ to the highest rate asked for)"""
    return ("106A", "212F", "424F")[cfg.get("brs", 0)]


class _SeededOs(object):
    """stand-in for the `os` module inside nfc.dep: urandom from a seeded generator"""

    def __init__(self, seed):
        self._rnd = random.Random(seed)

    def urandom(self, n):
        return bytes(self._rnd.getrandbits(8) for _ in range(n))

    def __getattr__(self, name):
        import os
        return getattr(os, name)


# ------------------------------------------------------------------ frame decoding (recorder's own)
DEP_T = {0: "INF", 1: "INF", 4: "ACK", 5: "NAK", 8: "ATN", 9: "RTOX"}


def decode_frame(fr):
    """air frame -> event fields; t = "OTHER" for anything that is not a DEP/RLS/DSL PDU."""
    d = bytearray(fr.data)
    out = dict(a="Frame", dir="IT" if fr.src == "I" else "TI", t="OTHER", pni=0, mi=False, did=False, nad=False,
               len=0, sig=0, size=0, brty=fr.brty, fate=fr.fate.replace("trunc:", "t"),
               heard=bool(fr.heard) or fr.fate == LOSE, n=fr.n)
    if fr.fate == LOSE:
        out["heard"] = False
    if fr.brty == "106A":
        if not d or d.pop(0) != 0xF0:
            return out
    if not d or d[0] != len(d):
        return out
    d.pop(0)
    out["size"] = len(d)
    if len(d) < 2 or d[0] != (0xD4 if fr.src == "I" else 0xD5):
        return out
    code = d[1] - (0 if fr.src == "I" else 1)
    if code in (0x08, 0x0A):
        out["t"] = "DSL" if code == 0x08 else "RLS"
        out["did"] = len(d) == 3
        return out
    if code != 0x06 or len(d) < 3:
        return out
    pfb = d[2]
    typ = pfb >> 4
    if typ not in DEP_T or DEP_T[typ] == "RTOX":
        return out
    out["t"] = DEP_T[typ]
    out["mi"] = typ == 1
    out["pni"] = pfb & 3
    out["nad"], out["did"] = bool(pfb & 8), bool(pfb & 4)
    data = d[3 + int(out["did"]) + int(out["nad"]):]
    out["len"], out["sig"] = len(data), (sig(data) if data else 0)
    return out


# ------------------------------------------------------------------ one recorded conversation
def err_kind(e):
    for cls, name in ((nfc.clf.TimeoutError, "Timeout"), (nfc.clf.ProtocolError, "Protocol"),
                      (nfc.clf.TransmissionError, "Transmission"), (nfc.clf.BrokenLinkError, "BrokenLink")):
        if isinstance(e, cls):
            return name
    if isinstance(e, nfc.clf.CommunicationError):
        return "Communication"
    return "Other:%s.%s" % (type(e).__module__, type(e).__name__)


class Conversation(object):
    """cfg: lri, lrt (0..3), did (None|int), nad (None|int), brs (0..2), tech ("A"|"F"), wt (target rwt option)
    plan: dict(ex=[(nI, D, nT), ...], release=None|"RLS"|"DSL")
    fates: list (script from the first DEP frame) or dict(rate=, corrupt=, burst=, seed=)"""

    def __init__(self, cid, cfg, plan, fates):
        self.cid, self.cfg, self.plan, self.fates = cid, cfg, plan, fates
        self.ev = []
        self.const = None
        self.error = None

    # -- event log ---------------------------------------------------------------------------------
    def _now(self):
        return int(round((self.air.clock.now - self.t0) / self.tick))

    def _finalize(self, next_a):
        """the post-state of the last frame, taken when the next thing happens on the initiator's side or in the
        target's application (a target that ends its exchange while the initiator still waits does not count: the
        spec's step includes the initiator's timeout)"""
        for rec in reversed(self.ev[-3:]):
            if rec["a"] == "Frame":
                if next_a == "TEnd" and rec["dir"] == "IT":
                    break           # the target's exchange ended on this frame, the initiator is still waiting
                if "post" not in rec:
                    tp = self.tgt.pni
                    rec["post"] = dict(ipni=self.ini.pni, tpni=4 if tp is None else tp, now=self._now(),
                                       ierr=next_a == "IErr")
                break

    def log(self, a, **kw):
        self._finalize(a)
        rec = dict(a=a)
        rec.update(kw)
        self.ev.append(rec)

    def on_frame(self, fr):
        if not self.recording:
            return
        rec = decode_frame(fr)
        self._finalize("Frame")
        self.ev.append(rec)

    # -- the two applications ----------------------------------------------------------------------
    def _fate_fn(self):
        f = self.fates
        if isinstance(f, (list, tuple)):
            return None
        rnd = random.Random(f.get("seed", 0))
        rate, pc, burst = f.get("rate", 0.0), f.get("corrupt", 0.5), f.get("burst", 0.0)
        st = dict(prev=False)

        def fn(frame):
            p = burst if st["prev"] and burst else rate
            bad = rnd.random() < p
            st["prev"] = bad
            if not bad:
                return DELIVER
            return CORRUPT if rnd.random() < pc else LOSE
        return fn

    def _sessions(self):
        """[(cfg, exchanges, ending, fates)]: the sessions the same two objects go through.  plan["pre"] = list of
        earlier sessions dict(cfg=, ex=, end="RLS"|"DSL"|"loss"[, fates=]) each with its OWN parameters (DID, NAD, general
        bytes, LR, bit rate, waiting time: present in one session and absent in the next, or the other way round);
        plan["s1"] = dict(k=, end=) is one earlier session of k fault-free single-frame exchanges with the parameters of
        the conversation proper, which comes last"""
        out = []
        s1 = self.plan.get("s1")
        if s1 is not None:
            out.append((self.cfg, [(3, 5, 2)] * s1["k"], s1["end"], []))
        for pre in self.plan.get("pre", ()):
            out.append((pre["cfg"], [tuple(x) for x in pre["ex"]], pre["end"], pre.get("fates", [])))
        out.append((self.cfg, self.plan["ex"], self.plan.get("release"), self.fates))
        return out

    def _const(self, cfg):
        """what the two objects HOLD after activate() (read from the objects; the target's part is filled in by run())
        and, under "e", what THIS activation established: the options given to activate() and the ATR_REQ / ATR_RES on
        the air.  The spec predicts the frames from the former; invariant SessAttr says they are the same."""
        air, ini = self.air, self.ini
        atr_req = [f for f in air.log if f.src == "I" and b"\xD4\x00" in f.data[:4]][-1].data
        atr_res = [f for f in air.log if f.src == "T" and b"\xD5\x01" in f.data[:4]][-1].data
        k = atr_req.index(b"\xD4\x00")
        lr_i = LR[(atr_req[k + 15] >> 4) & 3]
        did_air = atr_req[k + 12]
        k = atr_res.index(b"\xD5\x01")
        lr_t = LR[(atr_res[k + 16] >> 4) & 3]
        wt = min(atr_res[k + 15] & 15, 14)
        self.tick = 4096 / 13.56E6 * 2 ** wt / R_TICKS         # the response waiting time announced on the air is R_TICKS
        did = cfg.get("did")
        # did: the initiator was given a DID (it then sends a DID byte, also for 0); tdid: the ATR_REQ carries a
        # DID > 0, i.e. the target holds one; did0: a DID of 0 ("no DID" in the ATR_REQ) was configured
        est = dict(lrI=LR[cfg.get("lri", 3)], lrT=LR[cfg.get("lrt", 3)], did=did is not None, tdid=did_air > 0,
                   did0=did == 0, nad=cfg.get("nad") is not None, sb=brty_of(cfg) == "106A", R=R_TICKS, tR=R_TICKS,
                   gbI=gbtok(cfg.get("gbi")), gbT=gbtok(cfg.get("gbt")))
        return dict(lrI=lr_i, lrT=lr_t, did=ini.did is not None, did0=ini.did == 0, nad=ini.nad is not None,
                    sb=ini.target.brty == "106A", miuI=ini.miu, R=int(round(ini.rwt / self.tick)),
                    gbT=gbtok(ini.general_bytes), tdid=None, miuT=None, tR=None, gbI=None,
                    e=est, brty=ini.target.brty)

    def _theld(self, cfg, tgt=None):
        """the target's part: by the protocol rule as long as the device never reported an activation, else what the
        object holds"""
        if tgt is None:
            return dict(tdid=bool(cfg.get("did")), miuT=LR[cfg.get("lri", 3)] - 3 - bool(cfg.get("did")), tR=R_TICKS,
                        gbI=gbtok(cfg.get("gbi")))
        tick = 4096 / 13.56E6 * 2 ** min(max(0, cfg.get("wt", 8)), 14) / R_TICKS
        return dict(tdid=tgt.did is not None, miuT=tgt.miu, tR=int(round(tgt.rwt / tick)), gbI=gbtok(tgt.general_bytes))

    def _initiator(self):
        try:
            return self._initiator_sessions()
        finally:
            self.i_over = True

    def _initiator_sessions(self):
        air, ini = self.air, self.ini
        pid = 0
        for s, (cfg, exchanges, ending, fates) in enumerate(self._sessions()):
            # the parameters of THIS session: an option that is absent is not passed at all
            opts = dict(brs=cfg.get("brs", 0), acm=False, lri=cfg.get("lri", 3))
            for name in ("did", "nad", "gbi"):
                if cfg.get(name) is not None:
                    opts[name] = bytes.fromhex(cfg[name]) if name == "gbi" else cfg[name]
            if s > 0:
                self._finalize("Reactivate")      # the state the previous session left, before activate() touches it
                self.recording = False            # discovery and ATR frames are not part of the conversation
            if ini.activate(**opts) is None:
                raise RuntimeError("initiator activation failed (session %d)" % (s + 1))
            const = self._const(cfg)
            self.t0 = air.clock.now
            if s == 0:
                self.const = const
            else:
                self.consts.append(const)
                self.log("Activate", const=const, ipni=ini.pni, session=s)
            if isinstance(fates, (list, tuple)):
                air.script(fates)
            else:
                air.fates = self._fate_fn()
            self.recording = True
            for (n_i, d, _n_t) in exchanges:
                pid += 1
                self.log("ICall", id=pid, n=n_i, D=d)
                try:
                    got = ini.exchange(payload("I", pid, n_i), d * self.tick)
                except AirStall:                      # the simulation's own watchdog is never a verdict
                    raise
                except BaseException as e:            # noqa: every failure is an event, judged by the spec
                    self.log("IErr", kind=err_kind(e))
                    return "err"
                got = bytes(got)
                self.log("IRet", n=len(got), sig=sig(got))
            if ending in ("RLS", "DSL"):
                self.log("Release", kind=ending)
                ini.deactivate(release=(ending == "RLS"))
            # ending "loss": the initiator just goes away (the next activation switches the field off)
        return "ok"

    def _target(self):
        tgt = self.tgt
        sessions = self._sessions()
        reply = [ex[2] for (_, exchanges, _, _) in sessions for ex in exchanges]
        k = 0
        for s in range(len(sessions)):
            if s > 0 and self.i_over:
                break
            cfg = sessions[s][0]
            self.air.devices["T"].listen_tech = ("212F", "424F") if cfg.get("tech") == "F" else ("106A", "212F", "424F")
            self.theld.append(self._theld(cfg))
            opts = dict(lrt=cfg.get("lrt", 3), rwt=cfg.get("wt", 8))
            if cfg.get("gbt") is not None:
                opts["gbt"] = bytes.fromhex(cfg["gbt"])
            if tgt.activate(timeout=10.0, **opts) is None:
                if not self.recording and len(sessions) == 1:
                    raise RuntimeError("target activation failed")
                # no DEP_REQ got through in this session: the device never reported an activation
                self.log("TEnd", kind="NotActivated")
                continue
            self.theld[-1] = self._theld(cfg, tgt)
            data = None
            while True:
                try:
                    got = tgt.exchange(data, BIG)
                except AirStall:
                    raise
                except BaseException as e:            # noqa
                    self.log("TEnd", kind=err_kind(e))
                    break
                if got is None:
                    self.log("TEnd", kind="none")
                    break
                got = bytes(got)
                self.log("TRet", n=len(got), sig=sig(got))
                n_t = reply[k] if k < len(reply) else 1
                k += 1
                self.log("TCall", id=k, n=n_t)
                data = payload("T", k, n_t)
        return "ok"

    def run(self):
        # the only real-time element is the air's watchdog against a hung simulation: generous, and never an event
        self.air = air = Air(stall_timeout=STALL)
        clf_i, clf_t = air.frontends()
        self.ini, self.tgt = nfc.dep.Initiator(clf_i), nfc.dep.Target(clf_t)
        self.recording = False
        self.i_over = False
        self.theld, self.consts = [], []
        air.on_frame = self.on_frame
        old_os = nfc.dep.os
        nfc.dep.os = _SeededOs(zlib.crc32(self.cid.encode()) & 0xFFFF)
        air.clock.install(nfc.dep, nfc.clf)
        try:
            res = air.run(self._initiator, self._target)
        finally:
            air.clock.uninstall()
            nfc.dep.os = old_os
        for r in res:
            if r[0] == "exc":
                raise r[1]
        sessions = self._sessions()
        for n, c in enumerate([self.const] + self.consts):
            c.update(self.theld[n] if n < len(self.theld) else self._theld(sessions[n][0]))
            if n:
                c.pop("brty", None)
        self._finalize("End")
        self.frames = len(air.log)
        return self

    def trace(self):
        nad = self.cfg.get("nad")
        return dict(id=self.cid, const={k: v for k, v in self.const.items() if k != "brty"}, ev=self.ev,
                    nadv="none" if nad is None else "0" if nad == 0 else ">0")


def run_spec(spec):
    c = Conversation(spec["id"], spec["cfg"], spec["plan"], spec["fates"]).run()
    return c.trace(), dict(brty=c.const["brty"], frames=c.frames)


# ------------------------------------------------------------------ conversation generators
def miu_of(cfg):
    """the MIUs by the protocol rule (payload limit of the receiver minus the header bytes that are sent)"""
    mi = LR[cfg.get("lrt", 3)] - 3 - (cfg.get("did") is not None) - (cfg.get("nad") is not None)
    mt = LR[cfg.get("lri", 3)] - 3 - bool(cfg.get("did"))
    return mi, mt


def boundary_sizes(miu):
    s = {1, 2, miu - 1, miu, miu + 1, 2 * miu - 1, 2 * miu, 2 * miu + 1, 3 * miu - 1, 3 * miu}
    return sorted(v for v in s if v >= 1)


CONFIGS = [
    dict(lri=3, lrt=3, did=None, nad=None, brs=0, tech="A"),
    dict(lri=0, lrt=0, did=None, nad=0, brs=1, tech="A"),
    dict(lri=1, lrt=2, did=None, nad=None, brs=2, tech="A"),
    dict(lri=2, lrt=1, did=None, nad=7, brs=2, tech="F"),
    dict(lri=0, lrt=3, did=None, nad=None, brs=1, tech="F"),
    dict(lri=0, lrt=0, did=1, nad=None, brs=0, tech="A"),
    dict(lri=3, lrt=1, did=14, nad=3, brs=2, tech="A"),
]


def scripts(length, k):
    """all fate scripts over `length` frame positions with at most k faults"""
    yield []
    for m in range(1, k + 1):
        for pos in itertools.combinations(range(length), m):
            for kinds in itertools.product((LOSE, CORRUPT), repeat=m):
                s = [DELIVER] * (pos[-1] + 1)
                for p, f in zip(pos, kinds):
                    s[p] = f
                yield s


def systematic_specs(tier):
    """(a) every fate script with <= k faults over the first frames of short conversations, per configuration:
    all single faults over the first L1 frames, all double faults over the first L2, (thorough) triple over L3"""
    out = []
    quick = tier == "quick"
    l1, l2, l3 = (20, 8, 0) if quick else (30, 16, 9)
    for ci, cfg in enumerate(CONFIGS):
        mi, mt = miu_of(cfg)
        plans = [dict(ex=[(2 * mi + 1, 5, 2 * mt), (mi, 3, mt + 1), (1, 5, 1)], release="RLS"),
                 dict(ex=[(mi - 1, 3, 3 * mt - 1), (mi + 1, 5, mt - 1)], release="DSL")]
        if not quick:
            plans.append(dict(ex=[(3 * mi, 7, 1), (1, 3, 3 * mt), (2 * mi, 5, 2 * mt + 1), (mi, 5, mt)], release=None))
        for pi, plan in enumerate(plans):
            seen = set()
            todo = [scripts(l1, 1)]
            if not (quick and pi > 0):
                todo.append(scripts(l2, 2))
            if l3:
                todo.append(scripts(l3, 3))
            for gen in todo:
                for sc in gen:
                    if tuple(sc) in seen:
                        continue
                    seen.add(tuple(sc))
                    out.append(dict(id="s%d.%d.%d" % (ci, pi, len(seen)), cfg=cfg, plan=plan, fates=sc))
    return out


def boundary_specs(tier):
    """fault-free conversations exactly at the frame size limits: {no DID, DID 0, DID > 0} x {no NAD, NAD 0, NAD > 0}
    x LR 64/128/192/254 for each role (equal and crossed LRi/LRt), payloads k*miu-1, k*miu, k*miu+1 both ways"""
    out = []
    for di, did in enumerate((None, 0, 3)):
        for ni, nad in enumerate((None, 0, 5)):
            for lr in range(4):
                for cross in (False, True):
                    cfg = dict(lri=lr, lrt=(3 - lr) if cross else lr, did=did, nad=nad, brs=(lr + di + ni) % 3, tech="A")
                    mi, mt = miu_of(cfg)
                    ex = [(mi - 1, 5, mt - 1), (mi, 5, mt), (mi + 1, 5, mt + 1), (2 * mi, 5, 2 * mt - 1),
                          (2 * mi + 1, 5, 2 * mt), (3 * mi - 1, 5, 3 * mt + 1), (3 * mi, 5, 3 * mt)]
                    out.append(dict(id="b%d.%d.%d.%d" % (di, ni, lr, int(cross)), cfg=cfg,
                                    plan=dict(ex=ex, release="RLS" if lr % 2 else "DSL"), fates=[]))
    return out


def reactivation_specs(tier):
    """the same Initiator and Target objects are activated a second time after a first session of k = 0..5 exchanges
    (PNI left at every value) that ended by RLS, DSL or loss of the link; then a chained conversation, fault free
    and with every single fault on its first frames"""
    out = []
    quick = tier == "quick"
    for ci in (0, 6) if quick else range(len(CONFIGS)):
        cfg = CONFIGS[ci]
        mi, mt = miu_of(cfg)
        for end in ("RLS", "DSL", "loss"):
            for k in range(6):
                plan = dict(s1=dict(k=k, end=end), ex=[(2 * mi + 1, 5, mt + 1), (1, 5, 2 * mt)], release="RLS")
                for si, sc in enumerate(scripts(4 if quick else 8, 1)):
                    if quick and si and (k + si) % 3:
                        continue
                    out.append(dict(id="a%d.%s.%d.%d" % (ci, end, k, si), cfg=cfg, plan=plan, fates=sc))
    return out


GB_I = "46666d010111020207ff"          # general bytes as LLCP sends them (hex: specs are stored as JSON)
GB_T = "46666d01011103020003"
PLAIN = dict(lri=3, lrt=3, did=None, nad=None, gbi=None, gbt=None, brs=0, tech="A", wt=8)
# one optional / negotiable parameter of a session at a time, and all of them together
SESSION_PARAMS = [("did", dict(did=5)), ("did0", dict(did=0)), ("nad", dict(nad=3)), ("nad0", dict(nad=0)),
                  ("gbi", dict(gbi=GB_I)), ("gbt", dict(gbt=GB_T)), ("lri", dict(lri=0)), ("lrt", dict(lrt=0)),
                  ("brs", dict(brs=2)), ("tech", dict(tech="F", brs=1)), ("wt", dict(wt=10)),
                  ("all", dict(did=9, nad=4, gbi=GB_I, gbt=GB_T, lri=1, lrt=2, brs=1, wt=7))]


def session_plan(cfgs, ends):
    """the same two objects go through sessions with the given parameters, every session with chained payloads in
    both directions and a single-frame exchange; the last one is the conversation proper"""
    pre = []
    for cfg, end in zip(cfgs[:-1], ends):
        mi, mt = miu_of(cfg)
        pre.append(dict(cfg=cfg, ex=[(2 * mi + 1, 5, mt + 1), (2, 5, 3)], end=end))
    mi, mt = miu_of(cfgs[-1])
    return dict(pre=pre, ex=[(2 * mi + 1, 5, mt + 1), (1, 5, 2 * mt), (mi, 5, mt)], release="RLS")


def session_specs(tier):
    """the per-session parameters of the same Initiator and Target objects CHANGE from one activation to the next:
    each optional field present -> absent and absent -> present (DID > 0, DID 0, NAD, general bytes of either side),
    LR / bit rate / technology / waiting time larger -> smaller and back, a DID replaced by another one, three sessions
    in a row; sessions ended by RLS, DSL or loss of the link; fault free and with every single fault on the first frames
    of the last session.  Judged like every conversation (delivery invariants) plus SessAttr."""
    out = []
    quick = tier == "quick"
    ends = ("RLS", "DSL", "loss")
    for k, (name, delta) in enumerate(SESSION_PARAMS):
        with_p = dict(PLAIN, **delta)
        for way, cfgs in (("drop", [with_p, PLAIN]), ("add", [PLAIN, with_p])):
            for ei, end in enumerate(ends):
                if quick and name not in ("did", "all") and ei != k % 3:
                    continue
                nsc = (4 if quick else 8) if name in ("did", "nad", "all") and (ei == k % 3 or not quick) else 0
                for si, sc in enumerate(scripts(nsc, 1)):
                    out.append(dict(id="p.%s.%s.%s.%d" % (name, way, end, si), cfg=cfgs[-1],
                                    plan=session_plan(cfgs, [end]), fates=sc))
    other = dict(PLAIN, did=12, nad=9, gbi=GB_T, lrt=1)
    some = dict(PLAIN, did=5, nad=3, gbi=GB_I)
    for name, cfgs in (("change", [some, other]), ("drop-add", [some, PLAIN, other]), ("add-drop", [PLAIN, some, PLAIN]),
                       ("same", [some, some]), ("nad-only-drop", [some, dict(some, nad=None)]),
                       ("did-only-drop", [some, dict(some, did=None)])):
        for ei, end in enumerate(ends):
            out.append(dict(id="p.%s.%s" % (name, end), cfg=cfgs[-1],
                            plan=session_plan(cfgs, [end, ends[(ei + 1) % 3]]), fates=[]))
    return out


def truncation_specs(tier):
    """every frame of a conversation (but the one that completes the target's activation) truncated to k = 0..3
    octets, in both directions, at 106A (start byte F0h), 212F and 424F"""
    out = []
    quick = tier == "quick"
    for ci in (0, 1, 2) if quick else range(len(CONFIGS)):
        cfg = CONFIGS[ci]
        mi, mt = miu_of(cfg)
        plan = dict(ex=[(mi + 1, 5, mt + 1), (2, 5, 2 * mt + 1), (1, 5, 1)], release="RLS")
        for pos in range(1, 14 if quick else 18):
            for k in range(4):
                out.append(dict(id="c%d.%d.%d" % (ci, pos, k), cfg=cfg, plan=plan,
                                fates=[DELIVER] * pos + ["trunc:%d" % k]))
    return out


def random_specs(tier, seed):
    """(b) long random conversations, fault rate 0..30 %"""
    rnd = random.Random(seed * 7919 + 17)
    quick = tier == "quick"
    n = 48 if quick else 1000
    out = []
    for j in range(n):
        cfg = dict(rnd.choice(CONFIGS))
        if rnd.random() < 0.5:
            cfg.update(lri=rnd.randrange(4), lrt=rnd.randrange(4), brs=rnd.randrange(3))
            if cfg["tech"] == "F" and cfg["brs"] == 0:
                cfg["brs"] = 1
        if rnd.random() < 0.3:
            cfg["nad"] = rnd.choice([None, 0, 0, 9])
        if rnd.random() < 0.15:
            cfg["did"] = rnd.choice([0, 1, 14])
        mi, mt = miu_of(cfg)
        long_one = j % 5 == 0
        nex = (rnd.choice([100, 150, 200]) if quick else rnd.choice([150, 300, 400])) if long_one else rnd.choice([5, 20, 40])
        si, st = boundary_sizes(mi), boundary_sizes(mt)
        ex = []
        for _ in range(nex):
            a = rnd.choice(si) if rnd.random() < 0.5 else rnd.randint(1, min(3 * mi, 40))
            b = rnd.choice(st) if rnd.random() < 0.5 else rnd.randint(1, min(3 * mt, 40))
            ex.append((a, rnd.choice([3, 5, 5, 7, 9, 1] if rnd.random() < 0.15 else [3, 5, 7, 9]), b))
        rate = rnd.choice([0.0, 0.005, 0.01, 0.02]) if long_one else rnd.choice([0.02, 0.05, 0.1, 0.2, 0.3])
        fates = dict(rate=rate, corrupt=rnd.choice([0.0, 0.3, 0.5, 1.0]) if not long_one else 0.0 if rnd.random() < 0.6 else 0.5,
                     burst=rnd.choice([0.0, 0.0, 0.5]), seed=seed * 100003 + j)
        out.append(dict(id="r%d" % j, cfg=cfg, plan=dict(ex=ex, release=rnd.choice([None, "RLS", "DSL"])), fates=fates))
    return out


def record_all(specs, procs=12):
    """record conversations (in worker processes: the recording is pure Python and CPU bound)"""
    if len(specs) < 64:
        return [run_spec(s) for s in specs]
    with cf.ProcessPoolExecutor(max_workers=procs) as ex:
        return list(ex.map(run_spec, specs, chunksize=max(1, len(specs) // (procs * 8))))


# ------------------------------------------------------------------ verdicts
def nad_tag(tr):
    return tr.get("nadv", tr["const"]["nad"])


ATTR_OWNER = dict(did="initiator.did", did0="initiator.did", nad="initiator.nad", sb="initiator.target.brty",
                  R="initiator.rwt", gbT="initiator.general_bytes", lrI="initiator.lri",
                  tdid="target.did", tR="target.rwt", gbI="target.general_bytes", lrT="target.lrt")


def attr_word(a, v):
    if a in ("gbI", "gbT"):
        return "some" if v else "none"
    if a == "sb":
        return "106A" if v else "212F/424F"
    if a == "did0":
        return "zero" if v else "not-zero"
    if isinstance(v, bool):
        return "present" if v else "absent"
    return str(v)


def elems(x):
    """a TLA+ set as vlib.tlaval hands it over -> list"""
    x = list(x) if x else []
    return list(x[1]) if len(x) == 2 and x[0] == "set" else x


def stale_attrs(verdict):
    """the attributes an object holds that are not what this activation established (detail of a SessAttr verdict)"""
    d = verdict[3][2] if len(verdict[3]) > 2 else {}
    return sorted(set(ATTR_OWNER.get(a, a) for a in elems(d.get("bad"))))


def const_at(tr, line):
    """the configuration of the session event `line` (1-based) belongs to"""
    c = tr["const"]
    for e in tr["ev"][:line]:
        if e["a"] == "Activate":
            c = e["const"]
    return c


def classify(tr, verdict, stale=None):
    """canonical key of a rejection (never the seed / trace id)"""
    line, act, why = verdict[1], verdict[2], verdict[3]
    ev = tr["ev"]
    cs = const_at(tr, line)
    e = ev[line - 1]
    kind = why[0] if why else "?"
    if kind == "inv":
        names = list(why[1])
        keys = []
        for n in names:
            if n == "SessAttr":
                d = why[2] if len(why) > 2 else {}
                prev, first = d.get("prev", {}), not d.get("prev", {}).get("some")
                for a in sorted(elems(d.get("bad"))):
                    keys.append("SessAttr:%s:holds=%s:this-activation-established=%s:%s" % (
                        ATTR_OWNER.get(a, a), attr_word(a, d["held"].get(a)), attr_word(a, d["est"].get(a)),
                        "first-activation" if first else "previous-session-of-the-object=%s" % attr_word(a, prev.get(a))
                        if a in prev else "re-activation"))
            elif n == "OneFaultOk" and stale:
                keys.append(K_STALE % "+".join(stale))
            elif n == "FirstPni":
                d = why[2] if len(why) > 2 else {}
                keys.append(K_TPNI if d.get("last") == "dup" else K_IPNI)
            elif n == "MiuOk":
                d = why[2] if len(why) > 2 else {}
                who = [w for w, a, b in (("initiator", "miuI", "expI"), ("target", "miuT", "expT")) if d.get(a) != d.get(b)]
                c = cs["e"]
                keys.append("MiuOk:%s-MIU-is-not-LR-minus-header:did=%s:nad=%s:off-by=%s" % (
                    "+".join(who), "0" if c["did0"] else c["did"], nad_tag(tr) if cs is tr["const"] else c["nad"],
                    ",".join(str(d.get(a, 0) - d.get(b, 0)) for w, a, b in (("i", "miuI", "expI"), ("t", "miuT", "expT")) if d.get(a) != d.get(b))))
            elif n == "OneFaultOk" and cs["did0"]:
                keys.append(K_DID0)
            elif n == "OneFaultOk":
                # the frames of the failing step: back to the last ICall / the last new request
                frames = [x for x in ev[:line] if x["a"] == "Frame"]
                lastf = frames[-1]
                prev = frames[-2] if len(frames) > 1 else None
                if lastf["dir"] == "TI" and lastf["t"] == "ACK" and prev is not None and prev["t"] == "NAK":
                    keys.append(K_ACK)
                elif cs["did"] and any(x["t"] == "ATN" and x["dir"] == "IT" and not x["did"] for x in frames[-3:]):
                    keys.append(K_ATN)
                else:
                    keys.append("OneFaultOk:%s-%s-%s:did=%s" % (lastf["dir"], lastf["t"], lastf["fate"], cs["did"]))
            elif n == "FrameFits":
                d = why[2] if len(why) > 2 else {}
                c = cs
                if d.get("dir") == "TI" and d.get("did") and d.get("size") == c["lrI"] + 1 and c["miuT"] == c["lrI"] - 3:
                    keys.append(K_MIU)
                else:
                    lim = c["lrT"] if d.get("dir") == "IT" else c["lrI"]
                    keys.append("FrameFits:%s-%s:exceeds-LR-by-%s:did=%s:nad=%s" % (
                        d.get("dir"), d.get("t"), d.get("size", 0) - lim, "0" if c["did0"] else c["did"], nad_tag(tr)))
            else:
                keys.append("inv:%s@%s" % (n, act))
        return keys
    if kind in ("result", "guard") and act == "IErr" and str(e.get("kind", "")).startswith(("Other", "Transmission", "Communication", "BrokenLink")):
        return ["OnlyCommErr:Initiator.exchange-raised-%s" % e["kind"]]
    if kind == "guard" and act == "TEnd" and str(e.get("kind", "")).startswith("Other"):
        return ["OnlyCommErr:Target.exchange-raised-%s" % e["kind"]]
    nxt = ev[line] if line < len(ev) else {}
    if kind == "post" and act == "Frame" and nxt.get("a") == "IErr" and str(nxt.get("kind", "")).startswith("Other"):
        # the frame made exchange() raise something that is not a CommunicationError
        return ["OnlyCommErr:Initiator.exchange-raised-%s:after-%s-%s-%s" % (nxt["kind"], e["dir"], e["t"], e["fate"])]
    if act == "Activate" and kind == "guard":
        return [K_IPNI if e.get("ipni") else "conformance:guard@Activate"]
    what = e.get("t", "") if act == "Frame" else e.get("kind", "")
    return ["conformance:%s@%s:%s" % (kind, act, what)]


def mutate_for_selftest(tr):
    out = []
    t1 = json.loads(json.dumps(tr))
    for e in t1["ev"]:
        if e["a"] == "Frame" and e["t"] == "INF" and e["dir"] == "TI":
            e["pni"] = (e["pni"] + 1) % 4
            break
    t1["id"] = tr["id"] + "-corrupt"
    out.append(t1)
    t2 = json.loads(json.dumps(tr))
    for k, e in enumerate(t2["ev"]):
        if e["a"] == "Frame" and k > 3:
            del t2["ev"][k]
            break
    t2["id"] = tr["id"] + "-dropped"
    out.append(t2)
    t3 = json.loads(json.dumps(tr))
    for e in t3["ev"]:
        if e["a"] == "TRet":
            e["sig"] = (e["sig"] + 1) % 65521
            break
    t3["id"] = tr["id"] + "-payload"
    out.append(t3)
    return out


def mutate_session_selftest(tr):
    """a later activation reports general bytes of the target that are not the ones of this session: the behaviour
    still conforms, SessAttr must flag it"""
    t4 = json.loads(json.dumps(tr))
    e = [e for e in t4["ev"] if e["a"] == "Activate"][-1]
    e["const"]["gbI"] = e["const"]["gbI"] + 1
    t4["id"] = tr["id"] + "-staleattr"
    return t4


def judge(ck, traces, specs, verdicts):
    """verdicts[id] = behavioural conformance; verdicts[id#Inv] = first violation of invariant Inv"""
    acc = nev = nframes = 0
    by_id = {s["id"]: s for s in specs}
    for tr in traces:
        nev += len(tr["ev"])
        nframes += sum(1 for e in tr["ev"] if e["a"] == "Frame")
        flagged = [n for n in MC_INVS if tr["id"] + "#" + n in verdicts]
        if "FirstPni" in flagged and "OneFaultOk" in flagged:
            flagged.remove("OneFaultOk")      # the exchange fails because the session did not start afresh
        vs = [verdicts[tr["id"]]] + [verdicts[tr["id"] + "#" + n] for n in flagged]
        if vs[0][0] == "ACCEPT":
            acc += 1
        stale = stale_attrs(verdicts[tr["id"] + "#SessAttr"]) if "SessAttr" in flagged else None
        for v in vs:
            if v[0] == "ACCEPT":
                continue
            e = tr["ev"][v[1] - 1]
            for key in classify(tr, v, stale):
                ck.violation(key, "conversation %s: event %d (%s) %s ; event=%s ; const=%s" % (
                    tr["id"], v[1], v[2], json.dumps(v[3], default=list)[:500], json.dumps(e)[:300],
                    json.dumps(tr["const"])), replay=dict(kind="conversation", spec=by_id[tr["id"]]))
    return acc, nev, nframes


# ------------------------------------------------------------------ the check
MC_INVS = ["SessAttr", "FirstPni", "MiuOk", "ExactlyOnce", "Intact", "OnlyCommErr", "FrameFits", "OneFaultOk", "TargetOk", "PniInSync"]
WITNESSES_T = ["W_CutAbsorbed", "W_CutFatal"]
WITNESSES_S = ["W_OptDrop", "W_OptAdd", "W_OptMixed"]
WITNESSES = ["W_Again", "W_Retx", "W_Atn", "W_Nak", "W_NakAck", "W_ChainBoth", "W_Wrap", "W_ErrTimeout", "W_ErrProto",
             "W_Release", "W_Absorbed"]


def run(tier, seed):
    ck = check.Check(PID, tier, seed, "model_checking")
    quick = tier == "quick"
    # 1. exhaustive model checking of the repaired protocol (all invariants must hold) ...
    r = tlc.run("MC_NfcDep.tla", "MC_NfcDep.cfg" if quick else "MC_NfcDep_thorough.cfg", PID,
                workers=16, timeout=300 if quick else 1800)
    if not r.ok:
        ck.violation("spec:NfcDep:" + ",".join(r.violated or ["deadlock"]),
                     "TLC found a violation in the design-level model (variants ack, atn, miu on): %s"
                     % str(r.error_trace)[:2000])
    ck.cover(states=r.distinct, transitions=r.generated, mc_depth=r.depth)
    rt = tlc.run("MC_NfcDep.tla", "MC_NfcDep_trunc.cfg", PID + "_trunc", workers=8, timeout=300)
    if not rt.ok:
        ck.violation("spec:NfcDep(truncation):" + ",".join(rt.violated or ["deadlock"]),
                     "TLC found a violation in the truncated-frame model: %s" % str(rt.error_trace)[:2000])
    ck.cover(states=rt.distinct, transitions=rt.generated)
    hit_t, _ = tlc.witnesses("MC_NfcDep.tla", "MC_NfcDep_trunc.cfg", PID + "_trunc", WITNESSES_T)
    if set(WITNESSES_T) - hit_t:
        raise tlc.TLCError("vacuous model: witnesses not reached: %s" % sorted(set(WITNESSES_T) - hit_t))
    if True:        # re-activation of the same objects (MaxSess = 2) on its own, smaller fault bound
        rs = tlc.run("MC_NfcDep.tla", "MC_NfcDep_sess.cfg" if quick else "MC_NfcDep_sess_thorough.cfg", PID + "_sess",
                     workers=8 if quick else 16, timeout=300 if quick else 1500)
        if not rs.ok:
            ck.violation("spec:NfcDep(sessions):" + ",".join(rs.violated or ["deadlock"]),
                         "TLC found a violation in the re-activation model: %s" % str(rs.error_trace)[:2000])
        ck.cover(states=rs.distinct, transitions=rs.generated)
        # the parameters change from session to session (every ordered pair of MC_CfgsSess): chained traffic after each
        # optional attribute went present -> absent and absent -> present must be reachable ...
        hit_s, _ = tlc.witnesses("MC_NfcDep.tla", "MC_NfcDep_sessreach.cfg", PID + "_sess", WITNESSES_S)
        if set(WITNESSES_S) - hit_s:
            raise tlc.TLCError("vacuous model: witnesses not reached: %s" % sorted(set(WITNESSES_S) - hit_s))
        # ... and an object that assigns its optional attributes only when the new session has them must be flagged by
        # the delivery invariants on a fault-free link (prediction; the conformance stage judges the real objects)
        stl = tlc.run("MC_NfcDep.tla", "MC_NfcDep_stale.cfg", PID + "_stale", workers=4, timeout=300)
        if not stl.violated:
            raise tlc.TLCError("vacuous model: attributes kept from an earlier session do not violate any delivery invariant")
        ck.cover(stale_attribute_model_violates=sorted(stl.violated), session_witnesses=sorted(hit_s))
    hit, _ = tlc.witnesses("MC_NfcDep.tla", "MC_NfcDep_reach.cfg", PID, WITNESSES)
    missing = set(WITNESSES) - hit
    if missing:
        raise tlc.TLCError("vacuous model: witnesses not reached: %s" % sorted(missing))
    ck.cover(witnesses_reached=sorted(hit))
    # ... and of the code as it is: the counterexamples TLC finds here are only *predictions*; they become
    # findings when the conformance stage below reproduces them on the real objects.
    a = tlc.run("MC_NfcDep.tla", "MC_NfcDep_asis.cfg", PID + "_asis", workers=8, timeout=300)
    d0 = tlc.run("MC_NfcDep.tla", "MC_NfcDep_did0.cfg", PID + "_did0", workers=4, timeout=300)
    ck.cover(asis_model_violates=sorted(a.violated), did0_model_violates=sorted(d0.violated))

    # 2. conformance: real conversations -> Trace_NfcDep
    specs = (boundary_specs(tier) + reactivation_specs(tier) + session_specs(tier) + truncation_specs(tier) + systematic_specs(tier)
             + random_specs(tier, seed))
    recs = record_all(specs)
    traces = [t for t, _ in recs]
    self_t = mutate_for_selftest(next(t for t in traces if any(e["a"] == "TRet" for e in t["ev"]) and len(t["ev"]) > 12))
    self_s = mutate_session_selftest(next(t for t in traces if t["id"].startswith("p.all.drop")))
    verdicts, st = tlc.validate_traces("Trace_NfcDep.tla", "Trace_NfcDep.cfg", PID, traces + self_t + [self_s],
                                       shards=16, timeout=900 if quick else 3000)
    for t in self_t:
        if verdicts[t["id"]][0] == "ACCEPT":
            raise tlc.TLCError("binding vacuous: corrupted trace %s accepted" % t["id"])
    if self_s["id"] + "#SessAttr" not in verdicts:
        raise tlc.TLCError("binding vacuous: an attribute that is not the one this activation established was not flagged")
    acc, nev, nframes = judge(ck, traces, specs, verdicts)
    brty = {}
    for _, m in recs:
        brty[m["brty"]] = brty.get(m["brty"], 0) + 1
    ck.cover(traces_validated_against_impl=acc, traces_recorded=len(traces), trace_events=nev, frames_on_air=nframes,
             trace_states=st["states"], scripts_enumerated=sum(1 for s in specs if s["id"][0] == "s"),
             long_random_conversations=sum(1 for s in specs if s["id"][0] == "r"),
             exchanges_recorded=sum(1 for t in traces for e in t["ev"] if e["a"] == "ICall"),
             bit_rates=brty, configurations=len(CONFIGS),
             boundary_conversations=sum(1 for s in specs if s["id"][0] == "b"),
             reactivation_conversations=sum(1 for s in specs if s["id"][0] == "a"),
             session_parameter_change_conversations=sum(1 for s in specs if s["id"][0] == "p"),
             activations_recorded=len(traces) + sum(1 for t in traces for e in t["ev"] if e["a"] == "Activate"),
             truncation_conversations=sum(1 for s in specs if s["id"][0] == "c"),
             binding_selftest="wrong PNI, dropped frame, altered payload signature and an attribute held that the "
                              "activation did not establish all rejected")
    ck.sample(dict(trace=traces[0]["id"], const=traces[0]["const"], first_events=traces[0]["ev"][:5]))
    ck.sample(dict(mc="MC_NfcDep", distinct=r.distinct, depth=r.depth, asis_violations=sorted(a.violated)))
    ck.assume("the target application's timeout never expires during a conversation (1e6 s in the binding)",
              "a delivered or corrupted frame takes no virtual time; a lost frame costs exactly the requested timeout",
              "timeouts are odd multiples of rwt/2 so that float deadlines never tie with the response waiting time",
              "faults are whole-frame loss, corruption reported by the driver, or truncation to 0..3 octets handed over without"
              " an error (a cut that decode_frame reports as transmission error counts as one fault; a short frame that reads as"
              " a wrong length byte is a ProtocolError by design and a short/empty frame ends Target.exchange(): counted as"
              " two, i.e. not required to be absorbed); no other undetected bit errors, no foreign frames (C07)",
              "the frame that completes the target's activation (first DEP_REQ, handled by the driver) is not truncated",
              "exhaustive run on scaled LR (5..7 bytes); real LR 64..254 only by trace validation",
              "payloads are never empty (LLCP never sends an empty frame; Initiator.exchange(b'') raises UnboundLocalError)")
    return ck.finish()


def replay(rep, args):
    spec = rep["replay"]["spec"]
    tr, meta = run_spec(spec)
    verdicts, st = tlc.validate_traces("Trace_NfcDep.tla", "Trace_NfcDep.cfg", PID + "_replay", [tr], shards=1)
    rc = 0
    for vid in sorted(verdicts):
        v = verdicts[vid]
        print("replay verdict %s: %s" % (vid, json.dumps(v, default=list)[:800]))
        if v[0] != "ACCEPT":
            for k in range(max(0, v[1] - 6), v[1]):
                print("  event %d: %s" % (k + 1, json.dumps(tr["ev"][k])))
            sa = verdicts.get(tr["id"] + "#SessAttr")
            print("  keys: %s" % classify(tr, v, stale_attrs(sa) if sa else None))
            rc = 1
    if rc:
        print("VIOLATION property=%s replay=%s" % (PID, args.replay))
    return rc
