#!/bin/sh
# offline setup: parse every TLA+ module, check python imports, create scratch dirs
cd "$(dirname "$0")" || exit 2
mkdir -p out evidence
fail=0
for f in spec/*.tla; do
  if ! (cd spec && java -cp /opt/veriftools/tla/tla2tools.jar:/opt/veriftools/tla/CommunityModules-deps.jar tla2sany.SANY "$(basename "$f")" >/dev/null 2>../out/sany.err); then
    echo "SANY failed: $f"; cat out/sany.err; fail=1
  fi
done
PYTHONHASHSEED=0 /venv/bin/python - <<'PY' || fail=1
import sys
sys.path.insert(0, "/verif")
from vlib import use_repo
use_repo()
import vlib.tlc, vlib.check, vlib.tlaval
print("python ok")
PY
exit $fail
