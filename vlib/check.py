"""Check plumbing: verdict collection, known findings, evidence, exit codes."""
import os, sys, json, time, hashlib, traceback
from . import VERIF, OUT, EVID

KF_PATH = os.path.join(VERIF, "known_findings.json")


def load_findings(pid):
    try:
        data = json.load(open(KF_PATH))
    except FileNotFoundError:
        return []
    return [e for e in data.get(pid, [])]


class Check(object):
    """One run of one property's check.  Usage:
        ck = Check("C05", tier, seed, "model_checking")
        ck.violation(key, what, replay)       # judged against known_findings.json
        ck.cover(states=..., ...)             # accumulate coverage numbers
        sys.exit(ck.finish())
    """

    def __init__(self, pid, tier, seed, level):
        self.pid, self.tier, self.seed, self.level = pid, tier, int(seed), level
        self.t0 = time.time()
        self.cov = dict(samples=[])
        self.assumptions = []
        self.found = {}      # key -> (what, replay path)
        self.notes = []
        self.known = {e["key"]: e for e in load_findings(pid) if e.get("status") == "known"}
        self.fixed = {e["key"]: e for e in load_findings(pid) if e.get("status") == "fixed"}
        self.rdir = os.path.join(OUT, pid, "replay")
        os.makedirs(self.rdir, exist_ok=True)
        os.makedirs(EVID, exist_ok=True)

    # -- coverage -------------------------------------------------------------------------
    def cover(self, **kw):
        for k, v in kw.items():
            if isinstance(v, bool) or not isinstance(v, (int, float)):
                self.cov[k] = v
            else:
                self.cov[k] = self.cov.get(k, 0) + v

    def sample(self, s, limit=4):
        if len(self.cov["samples"]) < limit:
            self.cov["samples"].append(s)

    def assume(self, *txt):
        self.assumptions.extend(txt)

    def note(self, txt):
        self.notes.append(txt)
        print("NOTE: " + txt)

    # -- verdicts -------------------------------------------------------------------------
    def violation(self, key, what, replay=None):
        """key: canonical, specific identification of the failing input / site / history."""
        if key in self.found:
            return
        h = hashlib.sha1(key.encode()).hexdigest()[:12]
        path = os.path.join(self.rdir, "%s.json" % h)
        with open(path, "w") as f:
            json.dump(dict(property=self.pid, key=key, what=what, seed=self.seed, replay=replay), f, indent=1,
                      default=repr)
        self.found[key] = (what, path)

    def finish(self):
        rc = 0
        new = 0
        hit = []
        for key, (what, path) in sorted(self.found.items()):
            if key in self.known:
                print("KNOWN-FINDING: property=%s %s -- %s" % (self.pid, key, what))
                hit.append(key)
            else:
                print("VIOLATION property=%s replay=%s" % (self.pid, path))
                print("  key=%s\n  what=%s" % (key, what))
                new += 1
                rc = 1
        for key in self.known:
            if key not in self.found:
                print("NOTE: known finding %r was not reproduced by this run" % key)
        cov = dict(self.cov)
        if not cov.get("samples"):
            cov["samples"] = ["(no sample recorded)"]
        cov["known_findings_hit"] = hit
        cov["notes"] = self.notes
        ev = dict(property_id=self.pid, tier=self.tier, seed=self.seed, level=self.level,
                  coverage=cov, assumptions=self.assumptions,
                  wall_s=round(time.time() - self.t0, 2), violations=new)
        with open(os.path.join(EVID, "%s.json" % self.pid), "w") as f:
            json.dump(ev, f, indent=1, default=repr)
        print("%s %s tier=%s seed=%d wall=%.1fs violations=%d known=%d" % (
            "FAIL" if rc else "PASS", self.pid, self.tier, self.seed, ev["wall_s"], new, len(hit)))
        return rc


def main(run_fn, pid):
    """Entry used by /verif/check: run_fn(ck, args) ; exit 2 on machinery failure."""
    raise NotImplementedError
