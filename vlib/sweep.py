"""Sensitivity sweep: re-evaluate every stored seeded regression and every builder's mutant against the current tree.

    python -m vlib.sweep [--jobs 4] [--only C05,C09] [--mutants-only | --seeds-only]

seeded/<PID>[-name]/  ->  python -m vlib.seeded <PID> <dir> --keep <name>   (confirmation + quick check on the patched copy)
mutants/<PID>/<x>.patch -> scratch copy of /repo/src with the patch, NFCPY_SRC=<copy> ./check <PID> --tier quick, exit 1 wanted

A patch that no longer applies (a later fix: commit moved its context) is reported as such - it has to be re-based with the
same change, it is neither "caught" nor "missed".  Results: out/sweep.json and a table on stdout.
"""
import os, sys, json, glob, shutil, subprocess, argparse, concurrent.futures as cf

VERIF = os.path.dirname(os.path.dirname(os.path.abspath(__file__)))
CHECK_ONLY = False


def seed_job(d):
    base = os.path.basename(d)
    pid, _, name = base.partition("-")
    cmd = ["/venv/bin/python", "-m", "vlib.seeded", pid, d, "--keep", name] + (["--check-only"] if CHECK_ONLY else [])
    p = subprocess.run(cmd, cwd=VERIF, stdout=subprocess.PIPE, stderr=subprocess.STDOUT, text=True, timeout=4000)
    s = p.stdout
    try:
        r = json.loads(s[s.find("{"):s.rfind("}") + 1])
    except Exception:
        return dict(kind="seed", id=base, error=s[-400:])
    return dict(kind="seed", id=base, applies=r.get("patch_applies"), confirmed=r.get("confirmed"), caught=r.get("caught"),
                rc=r.get("check_rc"), wall=r.get("check_wall"))


def mutant_job(path):
    pid = os.path.basename(os.path.dirname(path))
    name = os.path.basename(path)[:-6]
    work = "/tmp/sweep-m-%s-%s-%d" % (pid, name[:30], os.getpid())
    shutil.rmtree(work, ignore_errors=True)
    os.makedirs(work)
    try:
        shutil.copytree("/repo/src", os.path.join(work, "src"))
        a = subprocess.run(["git", "apply", "--unsafe-paths", "--directory=" + work, path], cwd="/", stdout=subprocess.PIPE,
                           stderr=subprocess.STDOUT, text=True)
        if a.returncode != 0:
            a = subprocess.run("patch -p1 -s < %s" % path, shell=True, cwd=work, stdout=subprocess.PIPE, stderr=subprocess.STDOUT, text=True)
        if a.returncode != 0:
            return dict(kind="mutant", id="%s/%s" % (pid, name), applies=False, caught=None, note=a.stdout[-200:])
        env = dict(os.environ, NFCPY_SRC=os.path.join(work, "src"))
        p = subprocess.run(["./check", pid, "--tier", "quick"], cwd=VERIF, env=env, stdout=subprocess.PIPE, stderr=subprocess.STDOUT,
                           text=True, timeout=4000)
        return dict(kind="mutant", id="%s/%s" % (pid, name), applies=True, caught=p.returncode == 1, rc=p.returncode)
    finally:
        shutil.rmtree(work, ignore_errors=True)


def main():
    ap = argparse.ArgumentParser()
    ap.add_argument("--jobs", type=int, default=4)
    ap.add_argument("--only", default="")
    ap.add_argument("--mutants-only", action="store_true")
    ap.add_argument("--seeds-only", action="store_true")
    ap.add_argument("--check-only", action="store_true", help="seeds: do not repeat demo/tests, only apply + check")
    ap.add_argument("--resume", default="", help="log of an interrupted sweep (one JSON result per line)")
    a = ap.parse_args()
    global CHECK_ONLY
    CHECK_ONLY = a.check_only
    only = set(x for x in a.only.split(",") if x)
    seeds = sorted(d for d in glob.glob(os.path.join(VERIF, "seeded", "C*")) if os.path.isdir(d))
    muts = sorted(glob.glob(os.path.join(VERIF, "mutants", "C*", "*.patch")))
    if only:
        seeds = [d for d in seeds if os.path.basename(d)[:3] in only]
        muts = [m for m in muts if os.path.basename(os.path.dirname(m)) in only]
    jobs = ([] if a.mutants_only else [(seed_job, d) for d in seeds]) + ([] if a.seeds_only else [(mutant_job, m) for m in muts])
    # results of an interrupted sweep: entries that were caught are not repeated
    done = []
    if a.resume and os.path.exists(a.resume):
        for ln in open(a.resume):
            try:
                r = json.loads(ln)
            except Exception:
                continue
            if r.get("caught") is True and r.get("applies") is not False:
                done.append(r)
    have = set(r["id"] for r in done)

    def jid(f, x):
        return os.path.basename(x) if f is seed_job else "%s/%s" % (os.path.basename(os.path.dirname(x)), os.path.basename(x)[:-6])
    jobs = [(f, x) for f, x in jobs if jid(f, x) not in have]
    # two checks of the same property share scratch files under out/<PID>/: interleave the properties so that concurrent
    # jobs (almost always) belong to different properties
    bypid = {}
    for f, x in jobs:
        bypid.setdefault(jid(f, x)[:3], []).append((f, x))
    jobs = []
    while any(bypid.values()):
        for pid in sorted(bypid):
            if bypid[pid]:
                jobs.append(bypid[pid].pop(0))
    out = list(done)
    with cf.ThreadPoolExecutor(a.jobs) as ex:
        futs = [ex.submit(f, x) for f, x in jobs]
        for fu in cf.as_completed(futs):
            try:
                r = fu.result()
            except Exception as e:
                r = dict(kind="?", id="?", error=repr(e)[:300])
            out.append(r)
            print(json.dumps(r), flush=True)
    out.sort(key=lambda r: (r.get("kind", ""), r.get("id", "")))
    os.makedirs(os.path.join(VERIF, "out"), exist_ok=True)
    json.dump(out, open(os.path.join(VERIF, "out", "sweep.json"), "w"), indent=1)
    bad = [r for r in out if r.get("error") or r.get("applies") is False or r.get("caught") is not True or
           (r["kind"] == "seed" and not r.get("confirmed"))]
    print("\n%d evaluated, %d need attention:" % (len(out), len(bad)))
    for r in bad:
        print("  ", json.dumps(r))


if __name__ == "__main__":
    main()
