"""Evaluate a seeded regression: python -m vlib.seeded <PID> [<dir with patch.diff, demo, meta.json>] [--keep NAME]

1. confirms the regression in a scratch copy of /repo (outside /repo and /verif): the demonstration passes on the
   unchanged tree and fails with the patch; the touched modules' tests still pass with the patch;
2. runs `./check <PID> --tier quick` with NFCPY_SRC pointing at the patched copy (so /repo itself is never touched
   while other work is going on) and reports caught / missed;
3. with --keep stores patch, demo and meta (with the outcome) under /verif/seeded/<PID>[-NAME]/.
"""
import os, sys, json, shutil, subprocess, argparse, time, glob, shlex

VERIF = os.path.dirname(os.path.dirname(os.path.abspath(__file__)))


def sh(cmd, cwd=None, env=None, timeout=1800):
    # `timeout -k` so that a hanging pytest (a thread of a timer based test that never ends) cannot block the evaluation
    p = subprocess.run("timeout -k 10 %d sh -c %s" % (timeout, shlex.quote(cmd)), shell=True, cwd=cwd, env=env,
                       stdout=subprocess.PIPE, stderr=subprocess.STDOUT, text=True)
    return p.returncode, p.stdout


def tests_for(patch_text):
    files = [l.split(" b/")[-1].strip() for l in patch_text.splitlines() if l.startswith("diff --git")]
    t = set()
    for f in files:
        if "/llcp/" in f or "/snep/" in f or "/handover/" in f:
            t.update(["tests/test_llcp_llc.py", "tests/test_llcp_tco.py", "tests/test_llcp_pdu.py", "tests/test_llcp_socket.py"])
        if "/tag/" in f:
            t.update(glob.glob("/repo/tests/test_tag_*.py"))
        if "/clf/" in f:
            t.update(glob.glob("/repo/tests/test_clf_*.py"))
        if f.endswith("dep.py"):
            t.add("tests/test_dep.py")
    return sorted(os.path.join("tests", os.path.basename(x)) for x in t)


def failing(out):
    return sorted(l.split(" ")[1] for l in out.splitlines() if l.startswith(("FAILED", "ERROR")))


def main():
    ap = argparse.ArgumentParser()
    ap.add_argument("pid")
    ap.add_argument("src", nargs="?")
    ap.add_argument("--keep", default=None)
    ap.add_argument("--tier", default="quick")
    ap.add_argument("--check-only", action="store_true",
                    help="do not repeat the confirmation (demo on both trees, touched modules' tests): apply the patch and run the check")
    a = ap.parse_args()
    src = os.path.abspath(a.src or "/tmp/seed-%s-out" % a.pid)
    patch = os.path.join(src, "patch.diff")
    demo = [f for f in glob.glob(os.path.join(src, "demo_*.py"))][0]
    meta = json.load(open(os.path.join(src, "meta.json")))
    work = "/tmp/seedrun-%s-%d" % (a.pid, os.getpid())
    shutil.rmtree(work, ignore_errors=True)
    sh("git -C /repo worktree add --detach %s HEAD" % work)
    res = dict(property=a.pid, source=src)
    try:
        env = dict(os.environ, PYTHONPATH=os.path.join(work, "src"), PYTHONHASHSEED="0")
        runner = "/venv/bin/python -m pytest -q -p no:cacheprovider -x %s" if "def test_" in open(demo).read() else "/venv/bin/python %s"
        shutil.copy(demo, work)
        dpath = os.path.join(work, os.path.basename(demo))
        prev_eval = meta.get("evaluation") or {}
        if a.check_only:
            rc0, out0 = prev_eval.get("demo_unchanged_rc", 0), ""
            tests = ""
        else:
            rc0, out0 = sh(runner % dpath, cwd=work, env=env, timeout=600)
            tests = " ".join(tests_for(open(patch).read()))
        base_fail = []
        if tests:
            _, tb = sh("/venv/bin/python -m pytest -q -p no:cacheprovider --timeout=120 %s" % tests, cwd=work, env=env, timeout=900)
            base_fail = failing(tb)
        rca, outa = sh("git apply %s" % patch, cwd=work)
        if rca != 0:
            rca, outa = sh("patch -p1 < %s" % patch, cwd=work)
        if a.check_only:
            rc1, out1 = prev_eval.get("demo_patched_rc", 1), ""
        else:
            rc1, out1 = sh(runner % dpath, cwd=work, env=env, timeout=600)
        new_fail = []
        if tests:
            _, tp = sh("/venv/bin/python -m pytest -q -p no:cacheprovider --timeout=120 %s" % tests, cwd=work, env=env, timeout=900)
            new_fail = [f for f in failing(tp) if f not in base_fail]
            if new_fail:            # timer based tests are flaky under load: re-run the new failures alone, twice
                for _ in range(2):
                    _, tr = sh("/venv/bin/python -m pytest -q -p no:cacheprovider --timeout=120 %s" % " ".join(
                        n for n in new_fail), cwd=work, env=env)
                    new_fail = [f for f in new_fail if f in failing(tr)]
        if a.check_only:
            res["confirmation"] = "not repeated in this run (values of the earlier confirmation kept)"
        res.update(demo_unchanged_rc=rc0, demo_patched_rc=rc1, patch_applies=rca == 0, new_test_failures=new_fail,
                   confirmed=(rc0 == 0 and rc1 != 0 and rca == 0 and not new_fail))
        t0 = time.time()
        env2 = dict(os.environ, NFCPY_SRC=os.path.join(work, "src"))
        rcc, outc = sh("./check %s --tier %s" % (a.pid, a.tier), cwd=VERIF, env=env2, timeout=3600)
        lines = [l for l in outc.splitlines() if l.startswith(("VIOLATION", "  key=", "KNOWN-FINDING", "PASS", "FAIL", "MACHINERY"))]
        res.update(check_rc=rcc, check_wall=round(time.time() - t0, 1), caught=(rcc == 1),
                   check_lines=[l[:240] for l in lines][:12])
        if rcc not in (0, 1):
            res["check_tail"] = [l[:300] for l in outc.splitlines() if not l.startswith("    ")][-14:]
    finally:
        sh("git -C /repo worktree remove --force %s" % work)
        shutil.rmtree(work, ignore_errors=True)
    print(json.dumps(res, indent=1))
    if a.keep is not None:
        d = os.path.join(VERIF, "seeded", a.pid + ("-" + a.keep if a.keep else ""))
        os.makedirs(d, exist_ok=True)
        for f in (patch, demo):
            if os.path.abspath(os.path.dirname(f)) != os.path.abspath(d):
                shutil.copy(f, d)
        prev = meta.get("evaluation")
        if prev is not None:          # keep the history: a regression that was missed first and caught after strengthening
            meta.setdefault("evaluation_history", []).append(dict(caught=prev.get("caught"), confirmed=prev.get("confirmed"),
                                                                   check_lines=prev.get("check_lines", [])[:3]))
        meta["evaluation"] = res
        meta["ran"] = "python -m vlib.seeded %s %s  (demo on unchanged/patched scratch worktree, touched modules' tests, ./check %s --tier %s with NFCPY_SRC=<patched copy>)" % (a.pid, src, a.pid, a.tier)
        json.dump(meta, open(os.path.join(d, "meta.json"), "w"), indent=1)


if __name__ == "__main__":
    main()
