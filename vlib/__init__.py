"""Shared machinery: TLC runner, TLA+ value parser, trace batches, evidence, findings."""
import os, sys
VERIF = os.path.dirname(os.path.dirname(os.path.abspath(__file__)))
REPO = os.environ.get("NFCPY_REPO", "/repo")
SRC = os.environ.get("NFCPY_SRC", os.path.join(REPO, "src"))
SPEC = os.path.join(VERIF, "spec")
OUT = os.path.join(VERIF, "out")
# evidence is only ever written for /repo itself: a run against a patched copy (seeded regressions, mutants) or under
# the coverage audit writes its evidence next to the other scratch output
EVID = os.path.join(VERIF, "evidence") if not (os.environ.get("NFCPY_SRC") or os.environ.get("COVAUDIT")) \
    else os.path.join(OUT, "evidence-scratch")


def use_repo():
    """Make `import nfc` resolve to the *current working tree* (pure Python: rebuild = fresh import)."""
    if SRC in sys.path:
        sys.path.remove(SRC)
    sys.path.insert(0, SRC)
    os.environ.setdefault("NFCPY_VERIF", "1")
    import nfc  # noqa
    got = os.path.dirname(os.path.dirname(os.path.abspath(nfc.__file__)))
    if os.path.realpath(got) != os.path.realpath(SRC):
        raise RuntimeError("nfc imported from %s, expected %s" % (got, SRC))
    return nfc
