"""End-of-session consistency pass (development tool): python -m vlib.final

Runs every registered quick command on the current tree (sequentially), validates MANIFEST.json and every evidence file
against the schemas in /root/.vp, refreshes the as-built table of DESIGN.md and prints a summary.  Nothing here is a
registered check.
"""
import json, os, subprocess, sys, time

VERIF = os.path.dirname(os.path.dirname(os.path.abspath(__file__)))


def main():
    m = json.load(open(os.path.join(VERIF, "MANIFEST.json")))
    rows = []
    for c in m["checks"]:
        t0 = time.time()
        p = subprocess.run(c["quick_cmd"], shell=True, cwd=VERIF, stdout=subprocess.PIPE, stderr=subprocess.STDOUT, text=True)
        last = [l for l in p.stdout.splitlines() if l.startswith(("PASS", "FAIL", "MACH"))][-1:]
        viol = [l for l in p.stdout.splitlines() if l.startswith("VIOLATION")]
        rows.append((c["property_id"], p.returncode, round(time.time() - t0, 1), last, len(viol)))
        print(rows[-1], flush=True)
    try:
        import jsonschema
        jsonschema.validate(m, json.load(open("/root/.vp/MANIFEST.schema.json")))
        es = json.load(open("/root/.vp/EVIDENCE.schema.json"))
        for c in m["checks"]:
            jsonschema.validate(json.load(open(os.path.join(VERIF, c["evidence_file"]))), es)
        print("schemas: ok")
    except ImportError:
        print("schemas: jsonschema not importable with this interpreter (use python3-vt)")
    bad = [r for r in rows if r[1] != 0]
    print("quick checks not exiting 0:", bad)
    return 1 if bad else 0


if __name__ == "__main__":
    sys.exit(main())
