"""Write the prompts for one round of seeded regressions: python -m vlib.seedprompt <round> [PID ...]

Each prompt (/tmp/seedprompts/<PID>-r<round>.txt) is self-contained: the generic rules (seeded/PROMPT_rules.txt), the
property text from properties.jsonl and the one-sentence summaries of the regressions earlier rounds already used
(seeded/*/meta.json), so that a fresh sub-agent picks a different code site.  Nothing from /verif's machinery is quoted.
"""
import os, sys, json, glob

VERIF = os.path.dirname(os.path.dirname(os.path.abspath(__file__)))
NOTE = ("NOTE: this is round R of the exercise (R is given in your prompt, e.g. 2): wherever this text says rR read r2 etc.  "
        "Do NOT use `git stash` (stashes are shared between all worktrees of /repo and others use them concurrently): to test "
        "the unchanged code do `git -C <worktree> diff > /tmp/<name>.patch; git -C <worktree> checkout -- .` and re-apply with "
        "`git -C <worktree> apply /tmp/<name>.patch`.\n\n")
EXTRA = {
    "C13": "Note: tests/test_clf_pn532.py cannot be run on its own in this sandbox (it patches sys.platform); run the other tests/test_clf_*.py files and compare failing sets with the unchanged code.",
    "C14": "Note: tests/test_clf_pn532.py cannot be run on its own in this sandbox (it patches sys.platform); run the other tests/test_clf_*.py files and compare failing sets with the unchanged code.",
}
HINTS = {
    11: ("For this round pick a code site and a kind of mistake that are DIFFERENT from the ones above - it is round 11 and the "
         "list above is long, so read it carefully and then read the anchored files completely for code nobody touched.  Kinds of "
         "mistakes to prefer now: ROLE asymmetry (the change is right for the initiator / client / reader side and wrong for the "
         "target / server / listening / emulation side, or the reverse); fields that are OPTIONAL in the protocol (absent vs "
         "present: DID, NAD, CID, general bytes, historical bytes, optional TLVs, optional keyword arguments left at None); "
         "values >= 128 / >= 256 / exactly a power of two (sign, one- vs two-octet fields, masks that are one bit too narrow); the "
         "state an object is left in after a FAILED operation when a later operation on the same object succeeds; the second "
         "use of a code path with different parameters than the first (second tag, second link, different bit rate 106/212/424); "
         "a change split over TWO places that are each harmless alone; a less common but supported product/driver variant.  "
         "The change must be something a maintainer could plausibly commit."),
    10: ("For this round pick a code site and a kind of mistake that are DIFFERENT from the ones above - it is round 10 and the "
         "list above is long, so read it carefully and then read the anchored files completely for code nobody touched.  Kinds of "
         "mistakes nobody tried yet: an early `return`/`break` added for an 'impossible' case that is in fact legal; a lock or "
         "condition variable released/notified one statement too early or too late; a value cached on the object that should be "
         "recomputed after re-configuration; the interaction of two features that are each fine alone (aggregation with "
         "fragmentation, a timeout with chaining, two services on one link, close() racing with recv()); counters that wrap "
         "(modulo 16 / modulo 4) exactly at the wrap; the behaviour when the PEER is the one that initiates (connect, disconnect, "
         "symmetry, fragment).  The change must be something a maintainer could plausibly commit."),
    9: ("For this round pick a code site and a kind of mistake that are DIFFERENT from the ones above - it is round 9.  Read the "
        "anchored files completely; prefer statements in the middle of long functions that none of the earlier ideas touched, "
        "conditions with three or more terms, arithmetic on sequence numbers / lengths / timeouts, and code that runs only for "
        "the second or later item of something (second fragment, second socket, second exchange).  The change must be something "
        "a maintainer could plausibly commit."),
    8: ("For this round pick a code site and a kind of mistake that are DIFFERENT from the ones above - it is round 8, the obvious "
        "sites are used up: read the anchored files completely and look for a statement whose removal/alteration no earlier idea "
        "touched; think of rare but legal protocol situations (simultaneous actions of both peers, an answer arriving while the "
        "request is still queued, a retransmission that crosses a state change, the second of two connections, reuse after an "
        "error, values at both ends of a range at once).  The change must be something a maintainer could plausibly commit."),
    7: ("For this round pick a code site and a kind of mistake that are DIFFERENT from the ones above.  Ideas nobody tried yet: "
        "a change that is correct for the common configuration but wrong for a documented optional argument (timeouts, flags, "
        "keyword options); two call sites of one helper where only one was updated; a `return` inside a loop that should "
        "`continue` (or the reverse); a shared mutable default or class attribute; integer division / rounding of a time or "
        "size; a condition merged with `and`/`or` during clean-up; iteration over a container that is modified in the loop; "
        "the LAST element / final fragment / final block handled differently from the others."),
    6: ("For this round pick a code site and a kind of mistake that are DIFFERENT from the ones above.  Look for what nobody "
        "tried yet: a *default value* or constant changed by a refactoring; state that must be RESET between two uses of the "
        "same object (second connection, second message, re-activation); an ordering requirement between two writes/sends; a "
        "unit mix-up (bits/bytes, ms/s, blocks/bytes); a comparison on the wrong side of a conversion; clean-up in a `finally` "
        "or `except` branch; a property/getter that is also used internally; behaviour at the exact maximum a protocol field "
        "allows."),
    4: ("For this round pick a code site and a kind of mistake that are DIFFERENT from the ones above.  Prefer: code in one of the "
        "anchored files that none of the earlier ideas touched; an *interaction* (state left behind by one call that a later call "
        "relies on); a less common but valid configuration value; error-path clean-up; the second of two symmetric code paths; "
        "a vendor/variant subclass overriding a base method."),
}


def main():
    rnd = int(sys.argv[1])
    props = {json.loads(l)["id"]: json.loads(l) for l in open(os.path.join(VERIF, "properties.jsonl")) if l.strip()}
    pids = sys.argv[2:] or sorted(props)
    rules = open(os.path.join(VERIF, "seeded", "PROMPT_rules.txt")).read()
    os.makedirs("/tmp/seedprompts", exist_ok=True)
    for pid in pids:
        p = props[pid]
        used = []
        for m in sorted(glob.glob(os.path.join(VERIF, "seeded", pid + "*", "meta.json"))):
            try:
                used.append(json.load(open(m)).get("summary", "").strip())
            except Exception:
                pass
        mech = " | ".join("%s (%s)" % (m["name"], m["where"]) for m in p["anchors"].get("mechanism", []))
        txt = ("Your property id (CNN) is %s and this is round R = %d: use the worktree /tmp/seed-%s-r%d and the output directory "
               "/tmp/seed-%s-r%d-out.\n\n" % (pid, rnd, pid, rnd, pid, rnd)) + NOTE + rules + "\n\n"
        txt += 'PROPERTY %s TO BREAK - "%s"\nStatement: %s\nQuantifier: %s\nCode: %s\nWhat in the code is meant to make it hold: %s\n' % (
            pid, p["title"], p["statement"], p["quantifier"]["text"], ", ".join(p["anchors"]["files"]), mech)
        if pid in EXTRA:
            txt += EXTRA[pid] + "\n"
        if used:
            txt += "\nEarlier rounds already used these ideas - do NOT reuse them or their code sites:\n" + "".join(" - %s\n" % u for u in used if u)
        txt += "\n" + HINTS.get(rnd, HINTS[4]) + "  The change must still be small and realistic and must keep the repository's tests at their baseline.\n"
        open("/tmp/seedprompts/%s-r%d.txt" % (pid, rnd), "w").write(txt)
    print(len(pids), "prompts written to /tmp/seedprompts")


if __name__ == "__main__":
    main()
