"""python -m vlib.manifest add <PID> <category> <technique> <level text> <level note>   (lead only)"""
import sys, json, os
from . import VERIF


def add(pid, cat, technique, text, note):
    p = os.path.join(VERIF, "MANIFEST.json")
    m = json.load(open(p))
    m["checks"] = [c for c in m["checks"] if c["property_id"] != pid]
    m["checks"].append({"property_id": pid, "quick_cmd": "./check %s --tier quick" % pid,
                        "thorough_cmd": "./check %s --tier thorough" % pid, "evidence_file": "evidence/%s.json" % pid,
                        "replay_cmd_template": "./check %s --replay {path}" % pid, "engine": "tlc-binding",
                        "level_claimed": {"category": cat, "text": text, "design_ref": "DESIGN.md §3 %s" % pid},
                        "level_note": note, "technique": technique})
    m["checks"].sort(key=lambda c: c["property_id"])
    m["not_applicable"] = [e for e in m.get("not_applicable", []) if e["property_id"] != pid]
    sp = m["engines"][0]["serves_properties"]
    if pid not in sp:
        sp.append(pid)
        sp.sort()
    json.dump(m, open(p, "w"), indent=1)


if __name__ == "__main__":
    add(*sys.argv[2:7])
