"""python -m vlib.asbuilt : regenerate the 'as built' table of DESIGN.md (between the markers) from MANIFEST.json,
known_findings.json, seeded/*/meta.json and mutants/."""
import json, glob, os
from . import VERIF

SPECS = {"C01": "TlvTag, T3Tag, T4Tag", "C02": "TlvTag, T3Tag, T4Tag", "C03": "TlvTag, T3Tag, T4Tag", "C04": "NfcDep",
         "C05": "LlcpDlc, LlcpConn, LlcpWindow", "C06": "Snep, Handover", "C07": "Robust", "C08": "TagRead, TagReadRef", "C09": "LlcpLife",
         "C10": "LlcpCollect", "C11": "LlcpPdu", "C12": "IsoDep", "C13": "DriverErr", "C14": "HostFrame, Crc14443",
         "C15": "ClfLock (+ extracted CallSites)", "C16": "TagCmd", "C17": "LlcpAddr, LlcpResolve", "C18": "ClfConnect, ClfSense",
         "C19": "P2pNeg", "C20": "TagAuth"}
BEGIN, END = "<!-- ASBUILT-BEGIN -->", "<!-- ASBUILT-END -->"


def table():
    m = json.load(open(os.path.join(VERIF, "MANIFEST.json")))
    kf = json.load(open(os.path.join(VERIF, "known_findings.json")))
    out = ["| id | level | spec modules | fixed defects (nfcpy commits) | known findings (unrepaired) | seeded regressions (independent sub-agents) | builder's mutants |",
           "|---|---|---|---|---|---|---|"]
    for c in m["checks"]:
        pid = c["property_id"]
        fixed = sorted(set(e.get("commit", "?") for e in kf.get(pid, []) if e["status"] == "fixed"))
        known = [e["key"] for e in kf.get(pid, []) if e["status"] == "known"]
        seeds = []
        for d in sorted(glob.glob(os.path.join(VERIF, "seeded", pid + "-*"))):
            try:
                mt = json.load(open(os.path.join(d, "meta.json")))
            except Exception:
                continue
            ev = mt.get("evaluation", {})
            hist = [h.get("caught") for h in mt.get("evaluation_history", [])]
            tag = "caught" if ev.get("caught") else "MISSED"
            if ev.get("caught") and hist and not hist[0]:
                tag = "missed at first, caught after strengthening"
            seeds.append("%s: %s" % (os.path.basename(d)[len(pid) + 1:], tag))
        muts = len(glob.glob(os.path.join(VERIF, "mutants", pid, "*.patch")))
        out.append("| %s | %s | %s | %s | %s | %s | %d |" % (pid, c["level_claimed"]["category"], SPECS.get(pid, "?"), ", ".join(fixed) or "-",
                                                            "; ".join("`%s`" % k for k in known) or "-", "; ".join(seeds) or "-", muts))
    return "\n".join(out)


def main():
    p = os.path.join(VERIF, "DESIGN.md")
    s = open(p).read()
    t = BEGIN + "\n" + table() + "\n" + END
    if BEGIN in s:
        s = s[:s.index(BEGIN)] + t + s[s.index(END) + len(END):]
    else:
        s += "\n" + t + "\n"
    open(p, "w").write(s)
    print("DESIGN.md as-built table refreshed")


if __name__ == "__main__":
    main()
