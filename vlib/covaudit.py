"""Coverage audit (development tool, not a registered check): which statements of nfcpy do the conformance
harnesses execute at all?  python -m vlib.covaudit [--tier quick] [PID ...]

Runs each check under coverage.py (multiprocessing + threads), one data directory per property under
/tmp/covaudit/<PID>, and prints per property the coverage of the files the property is anchored in
(properties.jsonl anchors.files) with the missed line ranges, plus the union over all properties.  A line no harness
executes is a line whose breakage no trace can show: the report drives where drivers are extended.  The summary is
written to /verif/out/covaudit.json (out/ is not committed; DESIGN.md section 12 quotes it).
"""
import os, sys, json, subprocess, shutil, argparse, concurrent.futures as cf

VERIF = os.path.dirname(os.path.dirname(os.path.abspath(__file__)))
BASE = "/tmp/covaudit"


def props():
    return [json.loads(l) for l in open(os.path.join(VERIF, "properties.jsonl")) if l.strip()]


def run_one(pid, tier):
    d = os.path.join(BASE, pid)
    shutil.rmtree(d, ignore_errors=True)
    os.makedirs(os.path.join(d, "data"))
    rc = os.path.join(d, "rc")
    open(rc, "w").write("[run]\nsource = /repo/src/nfc\nconcurrency = multiprocessing,thread\nparallel = True\n"
                        "data_file = %s/data/.coverage\n" % d)
    env = dict(os.environ, PYTHONHASHSEED="0", NFCPY_VERIF="1", COVAUDIT="1")
    p = subprocess.run(["/venv/bin/python", "-m", "coverage", "run", "--rcfile=" + rc, "-m", "vlib.cli", pid, "--tier", tier],
                       cwd=VERIF, env=env, stdout=subprocess.PIPE, stderr=subprocess.STDOUT, text=True)
    last = [l for l in p.stdout.splitlines() if l.startswith(("PASS", "FAIL", "MACH"))][-1:]
    subprocess.run(["/venv/bin/python", "-m", "coverage", "combine", "--rcfile=" + rc, "-q"], cwd=d,
                   stdout=subprocess.DEVNULL, stderr=subprocess.DEVNULL)
    out = os.path.join(d, "cov.json")
    subprocess.run(["/venv/bin/python", "-m", "coverage", "json", "--rcfile=" + rc, "-o", out, "-q"], cwd=d,
                   stdout=subprocess.DEVNULL, stderr=subprocess.DEVNULL)
    return pid, last, out


def ranges(lines):
    out, start, prev = [], None, None
    for n in sorted(lines):
        if start is None:
            start = prev = n
        elif n == prev + 1:
            prev = n
        else:
            out.append((start, prev))
            start = prev = n
    if start is not None:
        out.append((start, prev))
    return ["%d-%d" % r if r[0] != r[1] else str(r[0]) for r in out]


def main():
    ap = argparse.ArgumentParser()
    ap.add_argument("pids", nargs="*")
    ap.add_argument("--tier", default="quick")
    ap.add_argument("--jobs", type=int, default=3)
    ap.add_argument("--report-only", action="store_true")
    a = ap.parse_args()
    P = {p["id"]: p for p in props()}
    pids = a.pids or sorted(P)
    res = {}
    if a.report_only:
        res = {pid: os.path.join(BASE, pid, "cov.json") for pid in pids}
    else:
        with cf.ThreadPoolExecutor(a.jobs) as ex:
            for pid, last, out in ex.map(lambda p: run_one(p, a.tier), pids):
                print(pid, last, flush=True)
                res[pid] = out
    union_exec, stmts = {}, {}
    summary = {}
    for pid in pids:
        if not os.path.exists(res[pid]):
            continue
        cov = json.load(open(res[pid]))["files"]
        per = {}
        for f, d in cov.items():
            rel = f.replace("/repo/", "")
            union_exec.setdefault(rel, set()).update(d["executed_lines"])
            stmts.setdefault(rel, set()).update(d["executed_lines"] + d["missing_lines"])
        for af in P[pid]["anchors"]["files"]:
            d = cov.get("/repo/" + af)
            if d is None:
                per[af] = dict(covered=0, statements=0, missing=["not imported"])
                continue
            per[af] = dict(covered=len(d["executed_lines"]), statements=len(d["executed_lines"]) + len(d["missing_lines"]),
                           missing=ranges(d["missing_lines"]))
        summary[pid] = per
    print("\n== per property, anchored files ==")
    for pid in pids:
        for af, d in summary.get(pid, {}).items():
            pc = 100.0 * d["covered"] / max(1, d["statements"])
            print("%s %-32s %4d/%4d %5.1f%%  missing: %s" % (pid, af, d["covered"], d["statements"], pc, " ".join(d["missing"])[:600]))
    print("\n== union over all checks ==")
    uni = {}
    for rel in sorted(stmts):
        miss = stmts[rel] - union_exec[rel]
        uni[rel] = dict(covered=len(union_exec[rel]), statements=len(stmts[rel]), missing=ranges(miss))
        print("%-36s %4d/%4d %5.1f%%  missing: %s" % (rel, len(union_exec[rel]), len(stmts[rel]),
                                                      100.0 * len(union_exec[rel]) / max(1, len(stmts[rel])), " ".join(ranges(miss))[:900]))
    os.makedirs(os.path.join(VERIF, "out"), exist_ok=True)
    json.dump(dict(tier=a.tier, per_property=summary, union=uni), open(os.path.join(VERIF, "out", "covaudit.json"), "w"), indent=1)


if __name__ == "__main__":
    main()
