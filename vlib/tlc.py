"""TLC runner: exhaustive model checking, simulation (behaviour files), trace batches."""
import os, re, json, shutil, subprocess, time, glob, concurrent.futures as cf
from . import SPEC, OUT
from . import tlaval

JAR = "/opt/veriftools/tla/tla2tools.jar:/opt/veriftools/tla/CommunityModules-deps.jar"


class TLCError(RuntimeError):
    """Machinery failure (TLC crashed / parse error / timeout) -> exit 2, never a verdict."""


class Result(object):
    def __init__(self):
        self.rc = None
        self.out = ""
        self.generated = 0
        self.distinct = 0
        self.depth = 0
        self.violated = []       # invariant / property names
        self.deadlock = False
        self.completed = False
        self.coverage = {}       # action name -> (distinct, total)
        self.wall = 0.0
        self.error_trace = None  # list of (action, state-text)

    @property
    def ok(self):
        return self.completed and not self.violated and not self.deadlock

    def zero_actions(self):
        return sorted(a for a, (d, t) in self.coverage.items() if t == 0)


def _jtmp():
    """TLC leaves one empty tlc-<n> directory per JVM in java.io.tmpdir: keep them out of /tmp and sweep old ones"""
    d = os.path.join(OUT, "jtmp")
    os.makedirs(d, exist_ok=True)
    try:
        now = time.time()
        for n in os.listdir(d):
            q = os.path.join(d, n)
            if now - os.path.getmtime(q) > 3600:
                try:
                    os.rmdir(q)
                except OSError:
                    pass
    except OSError:
        pass
    return d


def _java_cmd(xmx="6g", props=()):
    cmd = ["java", "-XX:+UseParallelGC", "-Xmx" + xmx, "-Xss16m", "-Djava.io.tmpdir=" + _jtmp()]
    cmd += ["-D" + p for p in props]
    cmd += ["-cp", JAR, "tlc2.TLC"]
    return cmd


def _scratch(tag):
    d = os.path.join(OUT, tag)
    os.makedirs(d, exist_ok=True)
    return d


def parse_output(text, res):
    m = None
    for m in re.finditer(r"(\d+) states generated, (\d+) distinct states found", text):
        pass
    if m:
        res.generated, res.distinct = int(m.group(1)), int(m.group(2))
    m = re.search(r"depth of the complete state graph search is (\d+)", text)
    if m:
        res.depth = int(m.group(1))
    res.completed = ("Model checking completed" in text or "Finished in" in text) \
        and "Error: " not in text.replace("Error: Invariant", "").replace("Error: Action property", "")\
        .replace("Error: Deadlock", "").replace("Error: Temporal", "").replace("Error: The behavior", "")\
        .replace("Error: The following behavior", "")
    res.violated = re.findall(r"Error: Invariant (\S+) is violated", text)
    res.violated += re.findall(r"Error: Action property (\S+) is violated", text)
    if "Temporal properties were violated" in text:
        res.violated.append("<temporal>")
    res.deadlock = "Error: Deadlock reached" in text
    if res.violated or res.deadlock:
        res.completed = True
    # coverage lines:  <Name line 12, col 1 to line 20, col 40 of module M>: 12:345
    for m in re.finditer(r"^<(\w+) line \d+, col \d+ to line \d+, col \d+ of module (\w+)>: (\d+):(\d+)",
                         text, re.M):
        name, d, t = m.group(1), int(m.group(3)), int(m.group(4))
        od, ot = res.coverage.get(name, (0, 0))
        res.coverage[name] = (od + d, ot + t)
    # error trace
    if "Error: " in text and "State 1:" in text:
        tr = []
        for m in re.finditer(r"^State (\d+): <([^>]*)>\n(.*?)(?=^State \d+:|^\d+ states generated|\Z)",
                             text, re.M | re.S):
            tr.append((m.group(2).strip(), m.group(3).strip()))
        res.error_trace = tr
    return res


def run(module, cfg, tag, workers=16, timeout=900, env=None, coverage=False, extra=(),
        xmx="8g", deadlock=None, cwd=SPEC, props=(), keep=False):
    """Run TLC on spec/<module>.tla with spec/<cfg> (or absolute cfg path)."""
    meta = os.path.join(_scratch(tag), "meta_%d" % os.getpid())
    shutil.rmtree(meta, ignore_errors=True)
    cmd = _java_cmd(xmx, props) + ["-config", cfg, "-workers", str(workers), "-metadir", meta,
                                   "-noGenerateSpecTE"]
    if coverage:
        cmd += ["-coverage", "1"]
    if deadlock is False:
        cmd += ["-deadlock"]
    cmd += list(extra) + [module]
    e = dict(os.environ)
    e.update(env or {})
    t0 = time.time()
    try:
        p = subprocess.run(cmd, cwd=cwd, env=e, stdout=subprocess.PIPE, stderr=subprocess.STDOUT,
                           timeout=timeout, text=True, errors="replace")
    except subprocess.TimeoutExpired as ex:
        subprocess.run(["pkill", "-f", meta], check=False)
        shutil.rmtree(meta, ignore_errors=True)
        raise TLCError("TLC timeout after %ss on %s/%s\n%s" % (timeout, module, cfg, (ex.stdout or "")[-2000:]))
    res = Result()
    res.rc, res.out, res.wall = p.returncode, p.stdout, time.time() - t0
    parse_output(p.stdout, res)
    if not keep:
        shutil.rmtree(meta, ignore_errors=True)
    if p.returncode not in (0, 10, 11, 12, 13) or not res.completed:
        # 0 ok, 10 assumption, 11 deadlock, 12 safety, 13 liveness
        if not (res.violated or res.deadlock):
            raise TLCError("TLC failed rc=%s on %s/%s\n%s" % (p.returncode, module, cfg, p.stdout[-4000:]))
    return res


# ----------------------------------------------------------------------------------------------
# simulation -> behaviours

_state_hdr = re.compile(r"^\\\* <(.*?)>\s*$")


def parse_sim_file(path):
    """One TLC -simulate file -> list of (action_header, {var: value})."""
    txt = open(path).read()
    out = []
    parts = re.split(r"^STATE_(\d+) ==\s*$", txt, flags=re.M)
    # parts: [pre, n1, body1, n2, body2 ...]; the action header comment precedes each STATE_ line
    pre = parts[0]
    for k in range(1, len(parts), 2):
        hdr_m = re.findall(r"^\\\* <(.*?)>\s*$", pre, flags=re.M)
        hdr = hdr_m[-1] if hdr_m else ""
        body = parts[k + 1]
        nxt = body
        # body ends where the next header comment / blank region starts
        cut = re.search(r"^\s*$\n(^\\\*.*$\n)?\Z|^=+", body, flags=re.M)
        state = {}
        conj = re.split(r"^/\\ ", body, flags=re.M)
        for c in conj[1:]:
            c = c.strip()
            # strip trailing header comment of the next state
            c = re.sub(r"\n\\\* <.*?>\s*$", "", c, flags=re.S)
            c = re.sub(r"\n=+\s*$", "", c)
            m = re.match(r"(\w+) = (.*)\Z", c, flags=re.S)
            if not m:
                continue
            state[m.group(1)] = tlaval.parse(m.group(2))
        out.append((hdr, state))
        pre = body
    return out


def action_name(hdr):
    m = re.match(r"(\w+)", hdr)
    return m.group(1) if m else hdr


def simulate(module, cfg, tag, num, depth, seed, timeout=600, env=None, workers=1, xmx="4g", cwd=SPEC):
    """Run `tlc -simulate file=...` and return the list of behaviours (each a list of (hdr, state))."""
    d = os.path.join(_scratch(tag), "sim_%d" % os.getpid())
    shutil.rmtree(d, ignore_errors=True)
    os.makedirs(d)
    meta = os.path.join(d, "meta")
    cmd = _java_cmd(xmx) + ["-config", cfg, "-workers", str(workers), "-metadir", meta, "-noGenerateSpecTE",
                            "-simulate", "file=%s/tr,num=%d" % (d, num), "-depth", str(depth),
                            "-seed", str(seed), "-deadlock", module]
    e = dict(os.environ)
    e.update(env or {})
    t0 = time.time()
    p = subprocess.run(cmd, cwd=cwd, env=e, stdout=subprocess.PIPE, stderr=subprocess.STDOUT,
                       timeout=timeout, text=True, errors="replace")
    files = sorted(glob.glob(os.path.join(d, "tr_*")))
    if not files:
        raise TLCError("simulate produced no behaviours rc=%s\n%s" % (p.returncode, p.stdout[-3000:]))
    viol = re.findall(r"Error: Invariant (\S+) is violated", p.stdout)
    behs = [parse_sim_file(f) for f in files]
    shutil.rmtree(d, ignore_errors=True)
    return behs, viol, time.time() - t0, p.stdout


# ----------------------------------------------------------------------------------------------
# trace batches (code -> spec)

def _run_trace_shard(args):
    module, cfg, tag, k, path, timeout, env, cwd = args
    meta = os.path.join(_scratch(tag), "tmeta_%d_%d" % (os.getpid(), k))
    shutil.rmtree(meta, ignore_errors=True)
    cmd = _java_cmd("3g") + ["-config", cfg, "-workers", "1", "-metadir", meta, "-noGenerateSpecTE",
                             "-deadlock", module]
    e = dict(os.environ)
    e.update(env or {})
    e["TRACE_FILE"] = path
    t0 = time.time()
    try:
        p = subprocess.run(cmd, cwd=cwd, env=e, stdout=subprocess.PIPE, stderr=subprocess.STDOUT,
                           timeout=timeout, text=True, errors="replace")
    except subprocess.TimeoutExpired:
        shutil.rmtree(meta, ignore_errors=True)
        raise TLCError("trace shard %d timeout" % k)
    shutil.rmtree(meta, ignore_errors=True)
    r = Result()
    r.rc, r.out, r.wall = p.returncode, p.stdout, time.time() - t0
    parse_output(p.stdout, r)
    return r


def validate_traces(module, cfg, tag, traces, shards=8, timeout=900, env=None, cwd=SPEC):
    """traces: list of dicts with unique 'id' (str).  Returns (verdicts, stats).

    verdicts[id] = ("ACCEPT",) | ("STUCK", line, event, why).  Every id gets exactly one verdict,
    otherwise TLCError (machinery failure).
    """
    ids = [t["id"] for t in traces]
    if len(set(ids)) != len(ids):
        raise TLCError("duplicate trace ids")
    if not traces:
        return {}, dict(states=0, transitions=0, wall=0.0)
    d = _scratch(tag)
    shards = max(1, min(shards, len(traces)))
    jobs = []
    for k in range(shards):
        part = traces[k::shards]
        path = os.path.join(d, "traces_%d_%d.ndjson" % (os.getpid(), k))
        with open(path, "w") as f:
            for t in part:
                f.write(json.dumps(t, separators=(",", ":")) + "\n")
        jobs.append((module, cfg, tag, k, path, timeout, env, cwd))
    verdicts = {}
    st = dict(states=0, transitions=0, wall=0.0)
    with cf.ThreadPoolExecutor(max_workers=min(shards, 16)) as ex:
        results = list(ex.map(_run_trace_shard, jobs))
    for job, r in zip(jobs, results):
        if not r.completed or r.violated:
            logp = os.path.join(d, "trace_fail_%d.log" % os.getpid())
            open(logp, "w").write(r.out)
            m = re.search(r"^Error: .*(?:\n.*){0,12}", r.out, re.M)
            raise TLCError("trace batch failed rc=%s (full log %s)\n%s" % (r.rc, logp, m.group(0) if m else r.out[-3000:]))
        st["states"] += r.distinct
        st["transitions"] += r.generated
        st["wall"] = max(st["wall"], r.wall)
        for v in tlaval.extract_tuples(r.out):
            if not isinstance(v, list) or not v:
                continue
            if v[0] == "ACCEPT" and len(v) >= 2:
                verdicts[v[1]] = ("ACCEPT",)
            elif v[0] == "STUCK" and len(v) >= 3:
                cur = verdicts.get(v[1])
                # an id may print several STUCK lines if TLC branched; keep ACCEPT if any branch accepted
                if cur is None:
                    verdicts[v[1]] = tuple(v[:1] + v[2:])
        try:
            os.remove(job[4])
        except OSError:
            pass
    missing = [i for i in ids if i not in verdicts]
    if missing:
        raise TLCError("no verdict for %d traces, e.g. %s\n%s" % (len(missing), missing[:3], results[0].out[-3000:]))
    return verdicts, st


def witnesses(module, cfg, tag, names, timeout=300, workers=4, cwd=SPEC):
    """Reachability witnesses: cfg (a file in spec/) holds constants without INVARIANT lines for
    the witnesses; for each name W (a state predicate `~Reached`) TLC must report `W is violated`.
    Returns the set of names that were reached.  One TLC per witness, in parallel."""
    base = open(os.path.join(cwd, cfg)).read()
    base = "\n".join(ln for ln in base.splitlines() if not ln.strip().startswith(("INVARIANT", "PROPERTY")))
    d = _scratch(tag)

    def one(name):
        path = os.path.join(d, "W_%d_%s.cfg" % (os.getpid(), name))
        with open(path, "w") as f:
            f.write(base + "\nINVARIANT %s\n" % name)
        try:
            r = run(module, path, tag + "/w_" + name, workers=workers, timeout=timeout, cwd=cwd)
        finally:
            os.remove(path)
        return name, (name in r.violated), r

    with cf.ThreadPoolExecutor(max_workers=max(1, 16 // workers)) as ex:
        res = list(ex.map(one, names))
    return {n for n, hit, _ in res if hit}, {n: r for n, _, r in res}
