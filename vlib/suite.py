"""python -m vlib.suite [repo_dir]: run the repository's baseline test command and list stable_pass tests that do not pass
(re-running those alone up to 3 times, because the timer based LLCP tests are flaky on a loaded machine)."""
import sys, os, json, subprocess, xml.etree.ElementTree as ET


def run(repo, args, junit):
    env = dict(os.environ, PYTHONPATH=os.path.join(repo, "src"))
    subprocess.run("/venv/bin/python -m pytest -ra -q -p no:cacheprovider --timeout=120 --continue-on-collection-errors "
                   "--junitxml=%s %s" % (junit, args), shell=True, cwd=repo, env=env, stdout=subprocess.DEVNULL, stderr=subprocess.DEVNULL)
    res = {}
    for tc in ET.parse(junit).getroot().iter("testcase"):
        st = "pass"
        for ch in tc:
            if ch.tag in ("failure", "error"):
                st = "fail"
            if ch.tag == "skipped":
                st = "skip"
        res[tc.get("classname") + "::" + tc.get("name")] = st
    return res


def main():
    repo = sys.argv[1] if len(sys.argv) > 1 else "/repo"
    sp = set(json.load(open("/root/.vp/BASELINE.json"))["stable_pass"])
    junit = "/tmp/junit_%d.xml" % os.getpid()
    res = run(repo, "", junit)
    bad = sorted(n for n in sp if res.get(n) != "pass")
    for attempt in range(3):
        if not bad:
            break
        files = sorted(set("tests/" + n.split("::")[0].split(".")[1] + ".py" for n in bad))
        r2 = run(repo, " ".join(files), junit)
        bad = [n for n in bad if r2.get(n) != "pass"]
    os.remove(junit)
    print("tests run: %d, stable_pass: %d, stable_pass not passing: %d" % (len(res), len(sp), len(bad)))
    for n in bad:
        print("  NOT PASSING:", n)
    sys.exit(1 if bad else 0)


if __name__ == "__main__":
    main()
