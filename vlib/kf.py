"""python -m vlib.kf add <PID> <key> <what> [--status known|fixed] [--commit SHA]  (file-locked edit of known_findings.json)"""
import sys, json, fcntl, argparse, os
from .check import KF_PATH


def main():
    ap = argparse.ArgumentParser()
    ap.add_argument("cmd", choices=["add", "list", "set"])
    ap.add_argument("pid", nargs="?")
    ap.add_argument("key", nargs="?")
    ap.add_argument("what", nargs="?")
    ap.add_argument("--status", default="known")
    ap.add_argument("--commit", default=None)
    a = ap.parse_args()
    with open(KF_PATH + ".lock", "w") as lk:
        fcntl.flock(lk, fcntl.LOCK_EX)
        data = json.load(open(KF_PATH))
        if a.cmd == "list":
            print(json.dumps(data if not a.pid else data.get(a.pid, []), indent=1))
            return
        ent = data.setdefault(a.pid, [])
        cur = [e for e in ent if e["key"] == a.key]
        if cur:
            e = cur[0]
        else:
            e = dict(key=a.key)
            ent.append(e)
        e["status"] = a.status
        if a.what:
            e["what"] = a.what
        if a.commit:
            e["commit"] = a.commit
        tmp = KF_PATH + ".tmp"
        json.dump(data, open(tmp, "w"), indent=1, sort_keys=True)
        os.replace(tmp, KF_PATH)


if __name__ == "__main__":
    main()
