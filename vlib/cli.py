import sys, os, argparse, importlib, traceback, json


def main():
    ap = argparse.ArgumentParser()
    ap.add_argument("pid")
    ap.add_argument("--tier", default=os.environ.get("VERIF_TIER", "quick"), choices=["quick", "thorough"])
    ap.add_argument("--seed", type=int, default=int(os.environ.get("VERIF_SEED", "1")))
    ap.add_argument("--replay", default=None)
    a = ap.parse_args()
    try:
        from . import use_repo
        use_repo()
        mod = importlib.import_module("bind.%s" % a.pid.lower())
        if a.replay:
            rep = json.load(open(a.replay))
            rc = mod.replay(rep, a)
        else:
            rc = mod.run(a.tier, a.seed)
    except SystemExit:
        raise
    except BaseException:
        traceback.print_exc()
        print("MACHINERY-FAILURE property=%s (no verdict)" % a.pid)
        sys.exit(2)
    sys.exit(rc)


if __name__ == "__main__":
    main()
