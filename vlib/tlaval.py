"""Parser for TLA+ values as printed by TLC (PrintT output, simulation files, error traces)."""
import re

_tok = re.compile(r'''\s*(?:
    (?P<str>"(?:[^"\\]|\\.)*") |
    (?P<int>-?\d+) |
    (?P<op><<|>>|\|->|:>|@@|\.\.|[\[\]{}(),]) |
    (?P<id>[A-Za-z_][A-Za-z0-9_!]*)
)''', re.X)


class ModelValue(str):
    pass


def tokenize(s):
    pos, out = 0, []
    n = len(s)
    while pos < n:
        m = _tok.match(s, pos)
        if not m:
            if s[pos:].strip() == "":
                break
            raise ValueError("bad TLA+ value at %d: %r" % (pos, s[pos:pos + 40]))
        pos = m.end()
        k = m.lastgroup
        out.append((k, m.group(k)))
    return out


def _unescape(s):
    return s[1:-1].replace('\\"', '"').replace('\\\\', '\\').replace('\\n', '\n').replace('\\t', '\t')


class _P:
    def __init__(self, toks):
        self.t, self.i = toks, 0

    def peek(self):
        return self.t[self.i] if self.i < len(self.t) else (None, None)

    def take(self, v=None):
        k, x = self.peek()
        if v is not None and x != v:
            raise ValueError("expected %r got %r at token %d" % (v, x, self.i))
        self.i += 1
        return k, x

    def value(self):
        v = self.atom()
        # function merge  a :> b @@ c :> d
        if self.peek()[1] == ":>":
            d = {}
            k = v
            while True:
                self.take(":>")
                d[_hk(k)] = self.atom()
                if self.peek()[1] == "@@":
                    self.take()
                    k = self.atom()
                else:
                    break
            return d
        if self.peek()[1] == "..":
            self.take()
            hi = self.atom()
            return list(range(v, hi + 1))
        return v

    def atom(self):
        k, x = self.take()
        if k == "str":
            return _unescape(x)
        if k == "int":
            return int(x)
        if k == "id":
            if x == "TRUE":
                return True
            if x == "FALSE":
                return False
            return ModelValue(x)
        if x == "<<":
            out = []
            while self.peek()[1] != ">>":
                out.append(self.value())
                if self.peek()[1] == ",":
                    self.take()
            self.take(">>")
            return out
        if x == "{":
            out = []
            while self.peek()[1] != "}":
                out.append(self.value())
                if self.peek()[1] == ",":
                    self.take()
            self.take("}")
            return ("set", out)
        if x == "(":
            v = self.value()
            self.take(")")
            return v
        if x == "[":
            d = {}
            while self.peek()[1] != "]":
                _, name = self.take()
                self.take("|->")
                d[name] = self.value()
                if self.peek()[1] == ",":
                    self.take()
            self.take("]")
            return d
        raise ValueError("unexpected token %r" % (x,))


def _hk(k):
    if isinstance(k, list):
        return tuple(_hk(x) for x in k)
    return k


def parse(s):
    p = _P(tokenize(s))
    v = p.value()
    if p.i != len(p.t):
        raise ValueError("trailing tokens in %r" % s[:80])
    return v


def extract_tuples(text):
    """Yield parsed <<...>> values found at top level of a (possibly interleaved) TLC stdout."""
    i, n = 0, len(text)
    while True:
        i = text.find("<<", i)
        if i < 0:
            return
        depth, j, instr = 0, i, False
        while j < n:
            c = text[j]
            if instr:
                if c == "\\":
                    j += 1
                elif c == '"':
                    instr = False
            elif c == '"':
                instr = True
            elif text.startswith("<<", j):
                depth += 1
                j += 1
            elif text.startswith(">>", j):
                depth -= 1
                j += 1
                if depth == 0:
                    break
            j += 1
        chunk = text[i:j + 1]
        try:
            yield parse(chunk)
        except ValueError:
            pass
        i = j + 1


def to_tla(v):
    """Python value -> TLA+ expression text (ints, bools, str, list=sequence, dict=record, set/frozenset)."""
    if isinstance(v, bool):
        return "TRUE" if v else "FALSE"
    if isinstance(v, int):
        return str(v)
    if isinstance(v, ModelValue):
        return str(v)
    if isinstance(v, str):
        return '"' + v.replace("\\", "\\\\").replace('"', '\\"') + '"'
    if isinstance(v, (bytes, bytearray)):
        return "<<" + ", ".join(str(b) for b in v) + ">>"
    if isinstance(v, (list, tuple)):
        return "<<" + ", ".join(to_tla(x) for x in v) + ">>"
    if isinstance(v, (set, frozenset)):
        return "{" + ", ".join(to_tla(x) for x in sorted(v, key=repr)) + "}"
    if isinstance(v, dict):
        if not v:
            return "<<>>"
        if all(isinstance(k, str) and re.match(r"^[A-Za-z_]\w*$", k) for k in v):
            return "[" + ", ".join("%s |-> %s" % (k, to_tla(x)) for k, x in v.items()) + "]"
        return "(" + " @@ ".join("%s :> %s" % (to_tla(k), to_tla(x)) for k, x in v.items()) + ")"
    raise TypeError(type(v))
