"""Simulated NFC air interface: two contactless devices joined by one half-duplex slot.

    air = Air()                               # the medium + a virtual clock
    clf_i, clf_t = air.frontends()            # two real nfc.clf.ContactlessFrontend, .device = SimDevice
    air.clock.install(nfc.dep, nfc.clf)       # `time` of those modules -> virtual clock (undo: air.clock.uninstall())
    ri, rt = air.run(initiator_fn, target_fn) # each function runs in its own thread, e.g.
                                              #   lambda: nfc.dep.Initiator(clf_i).activate(brs=0, acm=False) ...
                                              #   lambda: nfc.dep.Target(clf_t).activate(timeout=5.0) ...

Nothing of nfcpy's protocol code lives here; only the driver interface (nfc.clf.device.Device), the target
classes and the exception types are imported, because that is the contract a driver has to honour.

The medium
----------
* Two ports ("I" and "T" by default; both are the same `SimDevice` class, either can poll or listen, so
  `clf.connect(llcp=...)` with alternating roles works too).  A port is RUNNING (its thread executes code
  outside the device), WAITING (blocked inside a device call, listening or sleeping, with a virtual
  deadline) or DONE (closed / thread finished).
* A frame is put on the air by `send_cmd_recv_rsp`, `send_rsp_recv_cmd` or the sense_*/listen_* state
  machines.  Its *fate* comes from the script: "deliver", "lose" (nobody hears it) or "corrupt" (the
  receiver's driver reports nfc.clf.TransmissionError, as a CRC failure would).  A frame is heard only by
  a port that is WAITING, listening, and tuned to the frame's bit rate; otherwise it is lost (logged
  `heard=False`).  A fourth fate, "trunc:k", delivers only the first k octets of the frame (a driver that hands
  over a short frame without reporting an error).
* Virtual time: the clock only advances when no port is RUNNING; then the WAITING port with the earliest
  deadline times out (initiator side: nfc.clf.TimeoutError after exactly the timeout it asked for; a port
  in listen_* returns None at its deadline; a sleeping port wakes up).  Running code costs no virtual time,
  a delivered or corrupted frame costs no virtual time, a lost frame costs exactly the requested timeout.
  Because the medium is half duplex at most one port is runnable between two frames, so an execution is a
  deterministic function of the two programs and the fate script (no wall clock anywhere).
* A sender first waits (real time, not virtual) until the peer port is not RUNNING, i.e. the peer has come
  back to its device or is finished.  This replaces "the peer was still computing" races by the
  deterministic outcome "the peer was ready".
* RF field: a polling port switches its field on; `mute()`/`close()`/thread end switch it off and an
  activated target that is waiting for a command gets nfc.clf.BrokenLinkError (as rcs380/pn53x report).
* Every frame is appended to `air.log` as a `Frame` (index, direction, bit rate, bytes, length, fate,
  heard, virtual time).  `air.on_frame` (callable) is invoked under the medium lock for each frame, after
  the fate is decided and before the receiver runs: the place for recorders and monitors.  `air.on_wait`
  (callable(port, timeout, activated)) is invoked, also under the lock, whenever a port starts listening for a
  frame: the timeouts the stacks really ask their drivers for.

Fate scripts
------------
`air.fates` is a callable `f(frame) -> "deliver"|"lose"|"corrupt"`; `air.script([...], start=None)` installs a
list applying to the frames numbered from `start` (default: the next frame); frames beyond the list are
delivered.  `air.fates = None` delivers everything.
"""
import threading
import time as _real_time

import nfc.clf
import nfc.clf.device

DELIVER, LOSE, CORRUPT = "deliver", "lose", "corrupt"
RUNNING, WAITING, DONE = "RUNNING", "WAITING", "DONE"
DEP_BRTY = ("106A", "212F", "424F")


class AirStall(RuntimeError):
    """The simulation cannot make progress (a port's thread never came back to its device)."""


class VirtualClock(object):
    """A stand-in for the `time` module (time/sleep/monotonic); everything else is delegated."""

    def __init__(self, start=1000.0):
        self.now = float(start)
        self.air = None
        self._installed = []

    def time(self):
        return self.now

    monotonic = time

    def sleep(self, seconds):
        if self.air is not None:
            self.air._sleep(seconds)
        elif seconds > 0:
            self.now += seconds

    def __getattr__(self, name):
        return getattr(_real_time, name)

    def install(self, *modules):
        """Replace the module attribute `time` of each given module (e.g. nfc.dep, nfc.clf)."""
        for m in modules:
            self._installed.append((m, m.time))
            m.time = self
        return self

    def uninstall(self):
        while self._installed:
            m, old = self._installed.pop()
            m.time = old


class Frame(object):
    __slots__ = ("n", "src", "dst", "brty", "data", "fate", "heard", "time", "kind")

    def __init__(self, n, src, dst, brty, data, fate, heard, time, kind):
        self.n, self.src, self.dst, self.brty, self.data = n, src, dst, brty, bytes(data)
        self.fate, self.heard, self.time, self.kind = fate, heard, time, kind

    @property
    def dir(self):
        return "%s>%s" % (self.src, self.dst)

    def __len__(self):
        return len(self.data)

    def as_dict(self):
        return dict(n=self.n, dir=self.dir, brty=self.brty, len=len(self.data), data=self.data.hex(),
                    fate=self.fate, heard=self.heard, time=self.time, kind=self.kind)

    def __repr__(self):
        return "<%d %s %s %s %s%s t=%.6f>" % (self.n, self.dir, self.brty, self.data.hex(), self.fate,
                                               "" if self.heard else " (unheard)", self.time)


class _Port(object):
    def __init__(self, name):
        self.name = name
        self.state = RUNNING
        self.deadline = None        # virtual deadline while WAITING (None = forever)
        self.listening = False      # WAITING and able to hear frames
        self.brtys = ()             # bit rates it is tuned to
        self.inbox = None           # ("data", bytes, brty) | ("corrupt",) | ("timeout",) | ("rfoff",) | ("stall",)
        self.field = False          # generates the RF field (polling side)
        self.activated = False      # WAITING inside send_rsp_recv_cmd / after activation as target
        self.want_send = False      # RUNNING but blocked until the peer settles (wants to put a frame on air)
        self.peer = None


class Air(object):
    def __init__(self, names=("I", "T"), clock=None, fates=None, stall_timeout=30.0):
        self.clock = clock if clock is not None else VirtualClock()
        self.clock.air = self
        self.cv = threading.Condition()
        self.ports = {}
        a, b = _Port(names[0]), _Port(names[1])
        a.peer, b.peer = b, a
        self.ports[a.name], self.ports[b.name] = a, b
        self.names = tuple(names)
        self.log = []
        self.fates = fates
        self.on_frame = None
        self.on_wait = None         # callable(port name, timeout, activated): a port starts listening for a frame
        self.stall_timeout = stall_timeout
        self._threads = {}          # thread ident -> port (for sleep())
        self.devices = {n: SimDevice(self, n) for n in names}

    # ------------------------------------------------------------------ construction helpers
    def frontends(self):
        """Two real ContactlessFrontend objects driving the two simulated devices."""
        out = []
        for n in self.names:
            clf = nfc.clf.ContactlessFrontend()
            clf.device = self.devices[n]
            out.append(clf)
        return tuple(out)

    def script(self, fates, start=None):
        """Install a list of fates for the frames numbered start, start+1, ... (default: from now on)."""
        base = len(self.log) if start is None else start
        seq = list(fates)

        def f(frame):
            k = frame.n - base
            return seq[k] if 0 <= k < len(seq) else DELIVER
        self.fates = f
        return base

    def run(self, *functions, **kw):
        """Run one function per port, each in its own thread; returns [("ok", value) | ("exc", exception)].
        A port whose function returns is DONE (field off)."""
        join_timeout = kw.get("join_timeout", self.stall_timeout * 2)
        results = [None] * len(functions)

        def body(k, fn):
            port = self.ports[self.names[k]]
            self.bind_thread(port.name)
            try:
                results[k] = ("ok", fn())
            except BaseException as e:      # noqa: the harness reports it
                results[k] = ("exc", e)
            finally:
                self.done(port.name)

        ths = [threading.Thread(target=body, args=(k, fn), name="air-%s" % self.names[k], daemon=True)
               for k, fn in enumerate(functions)]
        for t in ths:
            t.start()
        for t in ths:
            t.join(join_timeout)
        if any(t.is_alive() for t in ths):
            raise AirStall("port thread did not finish: %s" % [t.name for t in ths if t.is_alive()])
        return results

    def bind_thread(self, name):
        self._threads[threading.get_ident()] = self.ports[name]

    def done(self, name):
        """Declare a port finished (its thread will not come back): field off, peer may time out."""
        with self.cv:
            p = self.ports[name]
            self._field_off(p)
            p.state = DONE
            p.listening = False
            self._settle()
            self.cv.notify_all()

    # ------------------------------------------------------------------ the medium
    def _field_off(self, p):
        if p.field:
            p.field = False
            q = p.peer
            if q.state == WAITING and q.listening and q.activated and q.inbox is None:
                q.inbox = ("rfoff",)
                q.state = RUNNING
                q.listening = False
                self.cv.notify_all()

    def _settle(self):
        """Called (lock held) whenever a port stops RUNNING: if nobody runs, virtual time passes."""
        ps = list(self.ports.values())
        self.cv.notify_all()            # a sender may be waiting for this port to settle
        if any(p.state == RUNNING for p in ps):
            return
        waiting = [p for p in ps if p.state == WAITING]
        if not waiting:
            return
        timed = [p for p in waiting if p.deadline is not None]
        if timed:
            p = min(timed, key=lambda x: (x.deadline, self.names.index(x.name)))
            if p.deadline > self.clock.now:
                self.clock.now = p.deadline
            p.inbox = ("timeout",)
        else:
            # everybody waits forever: the peer of a DONE port sees the field vanish, two waiters are stuck
            p = waiting[0]
            p.inbox = ("rfoff",) if len(waiting) == 1 else ("stall",)
        p.state = RUNNING
        p.listening = False
        self.cv.notify_all()

    def _wait_until(self, pred, what):
        t0 = _real_time.monotonic()
        while not pred():
            left = self.stall_timeout - (_real_time.monotonic() - t0)
            if left <= 0:
                raise AirStall("stalled waiting for %s" % what)
            self.cv.wait(left)

    def _emit(self, p, data, brty, kind):
        """Put one frame of port p on the air (lock held)."""
        q = p.peer
        fr = Frame(len(self.log), p.name, q.name, brty, data, DELIVER, False, self.clock.now, kind)
        fate = self.fates(fr) if self.fates is not None else DELIVER
        cut = None
        if isinstance(fate, str) and fate.startswith("trunc:"):
            cut = int(fate[6:])
        elif fate not in (DELIVER, LOSE, CORRUPT):
            raise ValueError("unknown fate %r" % (fate,))
        fr.fate = fate
        hears = q.state == WAITING and q.listening and brty in q.brtys and q.inbox is None
        fr.heard = bool(hears and fate != LOSE)
        self.log.append(fr)
        if self.on_frame is not None:
            self.on_frame(fr)
        if fr.heard:
            if cut is not None:
                q.inbox = ("data", bytearray(data)[:cut], brty)      # the driver hands over a short frame
            else:
                q.inbox = ("data", bytearray(data), brty) if fate == DELIVER else ("corrupt",)
            q.state = RUNNING
            q.listening = False
            self.cv.notify_all()
        return fr

    def transceive(self, name, data, brty, timeout, listen=None, kind="data", activated=False, field=None):
        """Send `data` (or nothing) at `brty`, then wait up to `timeout` virtual seconds (None = forever,
        <= 0 = do not wait) for a frame at one of the `listen` bit rates (default: brty).
        Returns ("data", bytes, brty) | ("corrupt",) | ("timeout",) | ("rfoff",) | None (did not wait)."""
        p = self.ports[name]
        self._threads.setdefault(threading.get_ident(), p)
        with self.cv:
            if p.state == DONE:
                p.state = RUNNING
            if field is not None:
                p.field = field
            if data is not None:
                # the peer must have settled; if both ports want to send at once the first port goes first
                # (its frame hits a port that is not listening and is lost: a collision, deterministically)
                first = self.names.index(name) == 0
                p.want_send = True
                self.cv.notify_all()
                try:
                    self._wait_until(lambda: p.peer.state != RUNNING or (first and p.peer.want_send),
                                     "port %s to settle" % p.peer.name)
                finally:
                    p.want_send = False
                self._emit(p, data, brty, kind)
            if timeout is not None and timeout <= 0:
                return None
            if self.on_wait is not None:
                self.on_wait(name, timeout, activated)
            p.state = WAITING
            p.listening = True
            p.activated = activated
            p.brtys = tuple(listen) if listen else (brty,)
            p.deadline = None if timeout is None else self.clock.now + timeout
            self._settle()
            self._wait_until(lambda: p.state == RUNNING and p.inbox is not None, "a frame or a timeout at port %s" % name)
            msg, p.inbox = p.inbox, None
            p.activated = False
            if msg[0] == "stall":
                raise AirStall("both ports wait forever")
            return msg

    def _sleep(self, seconds):
        p = self._threads.get(threading.get_ident())
        with self.cv:
            if p is None or seconds <= 0:
                if seconds > 0 and p is None:
                    self.clock.now += seconds      # a thread that is not a port: time simply passes
                return
            p.state = WAITING
            p.listening = False
            p.deadline = self.clock.now + seconds
            self._settle()
            self._wait_until(lambda: p.state == RUNNING and p.inbox is not None, "sleep of port %s" % p.name)
            p.inbox = None

    def mute(self, name):
        with self.cv:
            self._field_off(self.ports[name])


def _lenframe(brty, payload):
    """NFC-DEP transport frame: [F0] LEN payload."""
    fr = bytearray([len(payload) + 1]) + bytearray(payload)
    if brty == "106A":
        fr.insert(0, 0xF0)
    return fr


def _unframe(brty, data):
    """Inverse of _lenframe; None if the frame is malformed."""
    data = bytearray(data)
    if brty == "106A":
        if not data or data.pop(0) != 0xF0:
            return None
    if not data or data.pop(0) != len(data) + 1:
        return None
    return data


def _bcc(b):
    x = 0
    for v in b:
        x ^= v
    return x


class SimDevice(nfc.clf.device.Device):
    """One contactless device on the simulated air (poller and listener)."""

    def __init__(self, air, name, max_send=290, max_recv=290, active_mode=True):
        self.air, self.name = air, name
        self.max_send, self.max_recv = max_send, max_recv
        self.active_mode = active_mode            # sense_dep / active-mode ATR_REQ supported
        self.listen_tech = ("106A", "212F", "424F")   # technologies a listening device answers to
        self.poll_timeout = 0.005                 # response time granted to discovery commands
        self.led = False
        self._vendor_name, self._device_name, self._chipset_name = "verif", "SimDevice", "air"
        self._path = "sim:%s" % name

    # ------------------------------------------------------------------ housekeeping
    def close(self):
        self.air.done(self.name)

    def mute(self):
        self.air.mute(self.name)

    def turn_on_led_and_buzzer(self):
        self.led = True

    def turn_off_led_and_buzzer(self):
        self.led = False

    def get_max_send_data_size(self, target):
        return self.max_send

    def get_max_recv_data_size(self, target):
        return self.max_recv

    # ------------------------------------------------------------------ primitives
    def _poll(self, brty, data, kind, timeout=None):
        """poller: send a command, return the response bytes or None (timeout / corrupted / nothing)."""
        r = self.air.transceive(self.name, data, brty, self.poll_timeout if timeout is None else timeout,
                                kind=kind, field=True)
        return r[1] if r and r[0] == "data" else None

    # ------------------------------------------------------------------ sense (poll mode)
    def sense_tta(self, target):
        if target.brty not in ("106A", "212A", "424A"):
            raise nfc.clf.UnsupportedTargetError("unsupported bitrate %s" % target.brty)
        brty = target.brty
        sens_res = self._poll(brty, target.sens_req or b"\x26", "SENS_REQ")
        if sens_res is None:
            return None
        found = nfc.clf.RemoteTarget(brty, sens_res=sens_res)
        if sens_res[0] & 0x1F == 0:                 # Type 1 Tag platform
            if sens_res[1] & 0x0F == 0x0C:
                rid = self._poll(brty, bytearray.fromhex("78000000000000"), "RID_CMD")
                if rid is None:
                    return None
                found.rid_res = rid
            return found
        uid = bytearray()
        for sel_cmd in (0x93, 0x95, 0x97):
            sdd_res = self._poll(brty, bytearray([sel_cmd, 0x20]), "SDD_REQ")
            if sdd_res is None or len(sdd_res) != 5:
                return None
            sel_res = self._poll(brty, bytearray([sel_cmd, 0x70]) + sdd_res, "SEL_REQ")
            if sel_res is None:
                return None
            if sel_res[0] & 0x04:
                uid += sdd_res[1:4]
            else:
                uid += sdd_res[0:4]
                break
        else:
            return None
        if target.sel_req and bytearray(target.sel_req) != uid:
            return None
        found.sdd_res, found.sel_res = uid, sel_res
        return found

    def sense_ttb(self, target):
        if target.brty not in ("106B", "212B", "424B"):
            raise nfc.clf.UnsupportedTargetError("unsupported bitrate %s" % target.brty)
        res = self._poll(target.brty, target.sensb_req or bytearray.fromhex("050010"), "SENSB_REQ")
        if res is not None and len(res) >= 12 and res[0] == 0x50:
            return nfc.clf.RemoteTarget(target.brty, sensb_res=res)

    def sense_ttf(self, target):
        if target.brty not in ("212F", "424F"):
            raise nfc.clf.UnsupportedTargetError("unsupported bitrate %s" % target.brty)
        req = bytearray(target.sensf_req) if target.sensf_req else bytearray.fromhex("00FFFF0100")
        res = self._poll(target.brty, bytearray([len(req) + 1]) + req, "SENSF_REQ")
        if res is not None and len(res) >= 18 and res[0] == len(res) and res[1] == 1:
            return nfc.clf.RemoteTarget(target.brty, sensf_res=res[1:])

    def sense_dep(self, target):
        if not self.active_mode:
            raise nfc.clf.UnsupportedTargetError("%s does not support active communication mode" % self)
        if target.brty not in DEP_BRTY:
            raise nfc.clf.UnsupportedTargetError("unsupported bitrate %s" % target.brty)
        atr_req = bytearray(target.atr_req)
        res = self._poll(target.brty, _lenframe(target.brty, atr_req), "ATR_REQ(active)", timeout=0.1)
        res = _unframe(target.brty, res) if res is not None else None
        if res is not None and res.startswith(b"\xD5\x01") and len(res) >= 17:
            return nfc.clf.RemoteTarget(target.brty, atr_req=atr_req, atr_res=res)

    # ------------------------------------------------------------------ listen (target mode)
    def _listen(self, rsp, brty, deadline, brtys, kind, activated=False):
        """listener: send `rsp` (or nothing), wait for the next command until `deadline`.
        Returns (data, brty), "corrupt", "rfoff" or None (deadline reached)."""
        timeout = None if deadline is None else deadline - self.air.clock.now
        if timeout is not None and timeout <= 0:
            if rsp is not None:
                self.air.transceive(self.name, rsp, brty, 0, kind=kind)
            return None
        r = self.air.transceive(self.name, rsp, brty, timeout, listen=brtys, kind=kind, activated=activated)
        if r[0] == "data":
            return (r[1], r[2])
        return None if r[0] == "timeout" else r[0]

    @staticmethod
    def _cascade(uid):
        """UID -> list of (SDD_RES with BCC, more) per cascade level."""
        uid = bytearray(uid)
        if len(uid) not in (4, 7, 10):
            raise ValueError("sdd_res must be 4, 7 or 10 byte")
        levels = []
        while uid:
            if len(uid) > 4:
                part, uid = bytearray(b"\x88") + uid[0:3], uid[3:]
            else:
                part, uid = uid[0:4], bytearray()
            levels.append(part + bytearray([_bcc(part)]))
        return levels

    def _answer_tta(self, target, data):
        """Response to a Type A discovery command or None; sets self._selected when SEL completes."""
        levels = self._cascade(target.sdd_res)
        if data in (b"\x26", b"\x52"):
            self._selected = False
            return bytearray(target.sens_res), "SENS_RES"
        for k, sel_cmd in enumerate((0x93, 0x95, 0x97)[:len(levels)]):
            if data == bytearray([sel_cmd, 0x20]):
                return levels[k], "SDD_RES"
            if data == bytearray([sel_cmd, 0x70]) + levels[k]:
                more = k + 1 < len(levels)
                if not more:
                    self._selected = True
                return bytearray([(target.sel_res[0] & 0xFB) | (0x04 if more else 0)]), "SEL_RES"
        return None, None

    def _answer_ttf(self, target, data):
        """SENSF_RES frame for a SENSF_REQ frame, or None."""
        if len(data) >= 6 and data[0] == len(data) and data[1] == 0x00:
            res, sc = bytearray(target.sensf_res), data[2:4]
            if len(res) >= 19 and not all(a in (0xFF, b) for a, b in zip(sc, res[17:19])):
                return None
            out = res[0:17]
            if data[4] == 1 and len(res) >= 19:
                out = out + res[17:19]
            return bytearray([len(out) + 1]) + out

    def listen_tta(self, target, timeout):
        if target.brty not in ("106A",):
            raise nfc.clf.UnsupportedTargetError("unsupported bitrate %s" % target.brty)
        if not target.sens_res or len(target.sens_res) != 2:
            raise ValueError("sens_res is required and must be 2 byte")
        if not target.sel_res or len(target.sel_res) != 1:
            raise ValueError("sel_res is required and must be 1 byte")
        deadline = self.air.clock.now + timeout
        self._selected, rsp, kind = False, None, "listen"
        while True:
            got = self._listen(rsp, "106A", deadline, ("106A",), kind)
            rsp = None
            if got is None:
                return None
            if isinstance(got, str):
                continue
            data = got[0]
            ans, k = self._answer_tta(target, data)
            if ans is not None:
                rsp, kind = ans, k
            elif self._selected:
                out = nfc.clf.LocalTarget("106A", sens_res=target.sens_res, sdd_res=target.sdd_res,
                                          sel_res=target.sel_res)
                if data and data[0] == 0xE0:
                    out.tt4_cmd = data
                else:
                    out.tt2_cmd = data
                return out

    def listen_ttb(self, target, timeout):
        raise nfc.clf.UnsupportedTargetError("%s does not support listen as Type B Target" % self)

    def listen_ttf(self, target, timeout):
        if target.brty not in ("212F", "424F"):
            raise nfc.clf.UnsupportedTargetError("unsupported bitrate %s" % target.brty)
        if not target.sensf_res or len(target.sensf_res) != 19:
            raise ValueError("sensf_res is required and must be 19 byte")
        deadline = self.air.clock.now + timeout
        rsp, kind, polled = None, "listen", None
        while True:
            got = self._listen(rsp, target.brty, deadline, (target.brty,), kind)
            rsp = None
            if got is None:
                return None
            if isinstance(got, str):
                continue
            data = got[0]
            ans = self._answer_ttf(target, data)
            if ans is not None:
                rsp, kind, polled = ans, "SENSF_RES", data[1:]
            elif polled is not None and len(data) >= 10 and data[0] == len(data) \
                    and data[2:10] == target.sensf_res[1:9]:
                return nfc.clf.LocalTarget(target.brty, sensf_req=polled, sensf_res=target.sensf_res,
                                           tt3_cmd=data[1:])

    def listen_dep(self, target, timeout):
        for name, size in (("sens_res", 2), ("sdd_res", 4), ("sel_res", 1), ("sensf_res", 19)):
            v = getattr(target, name)
            if v is None or len(v) != size:
                raise ValueError("%s is required and must be %d byte" % (name, size))
        if target.atr_res is None or not 17 <= len(target.atr_res) <= 64:
            raise ValueError("atr_res is required and must be 17 to 64 byte")
        deadline = self.air.clock.now + timeout
        atr_res = bytearray(target.atr_res)
        self._selected, polled_f = False, None
        tuned = tuple(self.listen_tech)
        rsp, rsp_brty, kind = None, "106A", "listen"
        out = None          # LocalTarget under construction once the ATR_REQ arrived
        while True:
            got = self._listen(rsp, rsp_brty, deadline, tuned, kind, activated=out is not None)
            rsp = None
            if got is None:
                return None
            if got == "rfoff":
                return None
            if got == "corrupt":
                continue
            data, brty = got
            rsp_brty = brty
            if out is None:
                # ---- discovery: Type A / Type F polling, then ATR_REQ (passive) or ATR_REQ at once (active)
                mode = None
                if brty == "106A":
                    ans, k = self._answer_tta(target, data)
                    if ans is not None:
                        rsp, kind = ans, k
                        continue
                else:
                    ans = self._answer_ttf(target, data)
                    if ans is not None:
                        rsp, kind, polled_f = ans, "SENSF_RES", data[1:]
                        continue
                req = _unframe(brty, data)
                if req is None or not req.startswith(b"\xD4\x00") or len(req) < 16:
                    continue
                if brty == "106A" and self._selected:
                    mode = "A"
                elif brty != "106A" and polled_f is not None and req[2:10] == target.sensf_res[1:9]:
                    mode = "F"
                elif self.active_mode and not self._selected and polled_f is None:
                    mode = "active"
                else:
                    continue
                out = nfc.clf.LocalTarget(brty, atr_req=req, atr_res=atr_res)
                if mode == "A":
                    out.sens_res, out.sdd_res, out.sel_res = target.sens_res, target.sdd_res, target.sel_res
                elif mode == "F":
                    out.sensf_req, out.sensf_res = polled_f, target.sensf_res
                rsp, kind, tuned = _lenframe(brty, atr_res), "ATR_RES", (brty,)
                continue
            # ---- activated: PSL_REQ, DSL_REQ, RLS_REQ or the first DEP_REQ
            req = _unframe(brty, data)
            if req is None:
                return None
            if req.startswith(b"\xD4\x04") and len(req) == 5 and out.psl_req is None:
                out.psl_req = req
                out.psl_res = bytearray(b"\xD5\x05") + req[2:3]
                rsp, kind = _lenframe(brty, out.psl_res), "PSL_RES"
                # the response goes out at the old bit rate, then both sides switch
                self._listen_send_only(rsp, brty, kind)
                rsp = None
                dsi, dri = req[3] >> 3 & 7, req[3] & 7
                if dsi > 2 or dri > 2:
                    return None
                new = DEP_BRTY[dri]                 # nfcpy always selects dsi == dri
                out.brty = new
                rsp_brty, tuned = new, (new,)
                continue
            if req.startswith(b"\xD4\x08") or req.startswith(b"\xD4\x0A"):
                res = bytearray([0xD5, req[1] + 1]) + req[2:3]
                self._listen_send_only(_lenframe(brty, res), brty, "DSL_RES" if req[1] == 8 else "RLS_RES")
                return None
            if req.startswith(b"\xD4\x06"):
                out.dep_req = req
                return out
            if req.startswith(b"\xD4\x00"):
                rsp, kind = _lenframe(brty, atr_res), "ATR_RES"     # ATR_REQ repeated: answer again
                continue
            return None

    def _listen_send_only(self, rsp, brty, kind):
        self.air.transceive(self.name, rsp, brty, 0, kind=kind)

    # ------------------------------------------------------------------ data exchange
    def send_cmd_recv_rsp(self, target, data, timeout):
        brty_send = getattr(target, "brty_send", None) or target.brty
        brty_recv = getattr(target, "brty_recv", None) or target.brty
        r = self.air.transceive(self.name, data, brty_send, timeout, listen=(brty_recv,), kind="cmd", field=True)
        if r is None:
            return None
        if r[0] == "data":
            return r[1]
        if r[0] == "corrupt":
            raise nfc.clf.TransmissionError("simulated transmission error")
        raise nfc.clf.TimeoutError("no response within %r s" % (timeout,))

    def send_rsp_recv_cmd(self, target, data, timeout=None):
        brty = target.brty.split("/")[0]
        r = self.air.transceive(self.name, data, brty, timeout, listen=(brty,), kind="rsp", activated=True)
        if r is None:
            return None
        if r[0] == "data":
            return r[1]
        if r[0] == "corrupt":
            raise nfc.clf.TransmissionError("simulated transmission error")
        if r[0] == "rfoff":
            raise nfc.clf.BrokenLinkError("simulated RF field off")
        raise nfc.clf.TimeoutError("no command within %r s" % (timeout,))
