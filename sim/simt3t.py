"""SimT3T -- a simulated NFC Forum Type 3 Tag (FeliCa command subset, no nfcpy code inside).

Memory: block 0 = attribute information block, blocks 1..nblocks = NDEF data blocks (nblocks may be
larger than the Nmaxb announced in the attribute block), all reachable through service 0x000B
(random read-only w/o key) and 0x0009 (random read/write w/o key; absent when the tag is built
read-only).  A second, unrelated service (0x1009, `other`) has its own blocks: nothing an NDEF writer
does may ever change it.  Commands: Polling (00), Read Without Encryption (06), Write Without
Encryption (08).  A Write Without Encryption command is all-or-nothing (validated completely before
any block is changed), is logged in `self.log` and counted in `self.nwrites`; `cut_after=k` makes
the tag lose power right after the k-th executed write (k=0: before the first): `exchange()` then
returns None until `power_on()`.  `self.breaches` collects what a conforming reader must never do.

Multi-system cards (nsys = 1..3, ndef_pos): every system has its own IDm (the system number is the upper
nibble of IDm byte 0, as on real FeliCa cards) and PMm; the NFC Forum system 12FCh sits at position
ndef_pos, the others are proprietary systems (8008h, FE00h) that have no NDEF services but their own
copy of the unrelated service 0x1009.  Polling is answered by the first system whose code matches
(FFFFh / FFh bytes are wildcards, so FFFFh finds system 0); any other command is executed by the system
that owns the IDm it carries, a foreign IDm is not answered at all.
"""

SC_NDEF_RO = 0x000B
SC_NDEF_RW = 0x0009
SC_OTHER = 0x1009
SYS_NDEF = 0x12FC
SYS_FOREIGN = (0x8008, 0xFE00, 0x0003)


def attr_bytes(ver, nbr, nbw, nmaxb, writef, rwflag, ln, rfu=0, bad_checksum=False):
    a = bytearray(16)
    a[0], a[1], a[2] = ver, nbr, nbw
    a[3:5] = nmaxb.to_bytes(2, "big")
    a[5:9] = bytes([rfu]) * 4
    a[9], a[10] = writef, rwflag
    a[11:14] = ln.to_bytes(3, "big")
    s = sum(a[0:14]) + (1 if bad_checksum else 0)
    a[14:16] = (s & 0xFFFF).to_bytes(2, "big")
    return bytes(a)


def parse_lists(body):
    """Service code list + block list of a Read/Write Without Encryption command (syntax only).
    -> (error status | None, [service codes], [(service code, block number)], rest)"""
    if len(body) < 1:
        return b"\xFF\xA1", None, None, None
    ns = body[0]
    if not 1 <= ns <= 16 or len(body) < 1 + 2 * ns + 1:
        return b"\xFF\xA1", None, None, None
    scs = [body[1 + 2 * i] | body[2 + 2 * i] << 8 for i in range(ns)]
    pos = 1 + 2 * ns
    nb = body[pos]
    pos += 1
    if nb < 1:
        return b"\xFF\xA2", None, None, None
    out = []
    for i in range(nb):
        if pos >= len(body):
            return b"\xFF\xA2", None, None, None
        b0 = body[pos]
        if b0 & 0x80:
            if pos + 2 > len(body):
                return b"\xFF\xA2", None, None, None
            num = body[pos + 1]
            pos += 2
        else:
            if pos + 3 > len(body):
                return b"\xFF\xA2", None, None, None
            num = body[pos + 1] | body[pos + 2] << 8
            pos += 3
        if b0 & 0x70:
            return bytes([1 << (i % 8), 0xA5]), None, None, None
        if (b0 & 0x0F) >= ns:
            return bytes([1 << (i % 8), 0xA3]), None, None, None
        out.append((scs[b0 & 0x0F], num))
    return None, scs, out, bytes(body[pos:])


def parse_attr(a):
    """Attribute information block -> dict (independent of nfcpy)."""
    a = bytes(a)
    return dict(ver=a[0], nbr=a[1], nbw=a[2], nmaxb=int.from_bytes(a[3:5], "big"), rfu=list(a[5:9]),
                writef=a[9], rwflag=a[10], ln=int.from_bytes(a[11:14], "big"),
                ckok=(sum(a[0:14]) & 0xFFFF) == int.from_bytes(a[14:16], "big"))


def gen_block(g, b):
    """Content of data block b of a lazily served tag (mirrors GenBlk in spec/T3Tag.tla)."""
    return bytes((g + 31 * b + 7 * j + 13 * (b // 256)) % 251 for j in range(1, 17))


class _Blocks(object):
    """Block 0 (attribute block) + data blocks 1..n; with gen != None data blocks that were never
    written are served from gen_block() (tags with up to 65535 blocks cost nothing)."""

    def __init__(self, attr, n, gen, data):
        self.attr, self.n, self.gen = bytearray(attr), n, gen
        self.store = {}
        if gen is None:
            for i in range(n):
                self.store[i + 1] = bytearray(data[i * 16:(i + 1) * 16])

    def __len__(self):
        return self.n + 1

    def __getitem__(self, b):
        if b == 0:
            return self.attr
        if not 1 <= b <= self.n:
            raise IndexError(b)
        if b not in self.store:
            self.store[b] = bytearray(gen_block(self.gen, b))
        return self.store[b]


class SimT3T(object):
    def __init__(self, attr, data=b"", nblocks=None, idm=bytes.fromhex("02FE000102030405"),
                 pmm=bytes.fromhex("00FFFFFFFFFFFFFF"), nbr_phys=None, nbw_phys=None,
                 other=b"\x5A" * 32, cut_after=None, fill=0x00, gen=None, nsys=1, ndef_pos=0, outage=None):
        attr = bytes(attr)
        assert len(attr) == 16
        nmaxb = int.from_bytes(attr[3:5], "big")
        nblocks = nmaxb if nblocks is None else nblocks
        mem = b"" if gen is not None else bytearray(data) + bytearray([fill]) * max(0, nblocks * 16 - len(data))
        self.nblocks, self.gen = nblocks, gen
        self.blocks = _Blocks(attr, nblocks, gen, mem)
        self.written = set()        # data blocks changed by an executed write (lazy tags: the materialised ones)
        assert 1 <= nsys <= 3 and 0 <= ndef_pos < nsys
        self.nsys, self.ndef_pos = nsys, ndef_pos
        # the unrelated service of every system (system k starts with a different fill)
        self.others = [[bytearray(bytes((x + 37 * k) & 0xFF for x in other[i:i + 16]))
                        for i in range(0, len(other), 16)] for k in range(nsys)]
        self.other = self.others[ndef_pos]
        foreign = iter(SYS_FOREIGN)
        self.systems = []           # (system code, IDm, PMm) in system order
        for k in range(nsys):
            code = SYS_NDEF if k == ndef_pos else next(foreign)
            self.systems.append((code, bytes([k << 4 | idm[0] & 0x0F]) + bytes(idm[1:]), bytes(pmm[:7]) + bytes([0xF0 | k])))
        self.idm, self.pmm = self.systems[ndef_pos][1], self.systems[ndef_pos][2]
        self.read_sys = []          # system addressed by every read command received
        self.nbr_phys = attr[1] if nbr_phys is None else nbr_phys
        self.nbw_phys = attr[2] if nbw_phys is None else nbw_phys
        self.writable = attr[10] != 0
        self.cut_after = cut_after
        # transient outage (k, r): the write command FRAMES number k..k+r-1 (0-based, retransmissions count) do
        # not reach the tag (not executed, no answer, logged with drop=True); later frames are served again
        self.outage = outage
        self.nwframes = 0
        self.nwrites = 0
        self.log = []               # dict(sc=[..], blocks=[..], data=bytes, ok=) per write command received
        self.reads = []             # list of block-number lists per executed read command
        self.breaches = []
        self.powered = True
        self.cur = ndef_pos

    def power_on(self):
        self.powered = True
        self.cut_after = None
        self.outage = None
        self.reads = []
        self.read_sys = []

    def sensf_res(self, act="ndef"):
        """What a reader's poll finds: act = "ndef" (poll for 12FCh, request code 1), "wild" (poll for FFFFh,
        request code 1: system 0 answers with its system code), "nocode" (FFFFh, request code 0)."""
        code, idm, pmm = self.systems[self.ndef_pos if act == "ndef" else 0]
        return b"\x01" + idm + pmm + (b"" if act == "nocode" else code.to_bytes(2, "big"))

    def system_of(self, idm):
        """index of the system that owns this IDm, -1 if none"""
        for k, (code, i, p) in enumerate(self.systems):
            if bytes(idm) == i:
                return k
        return -1

    def attr_block(self):
        return bytes(self.blocks.attr)

    def image(self):
        """[[block number, 16 bytes], ..] of the data blocks the tag holds explicitly: all of them, or for a
        lazily served tag (gen) the ones that were written."""
        bs = range(1, self.nblocks + 1) if self.gen is None else sorted(self.written)
        return [[b, list(self.blocks[b])] for b in bs]

    def other_memory(self):
        """the unrelated service of all systems, in system order"""
        return b"".join(bytes(b) for o in self.others for b in o)

    # ------------------------------------------------------------------------------------------
    def exchange(self, frame):
        if not self.powered:
            return None
        frame = bytes(frame)
        if len(frame) < 2 or frame[0] != len(frame):
            return None
        code = frame[1]
        if code == 0x00:
            return self._polling(frame[2:])
        if len(frame) < 10:
            return None
        self.cur = self.system_of(frame[2:10])           # the system that executes this command
        if self.cur < 0:
            return None
        idm = self.systems[self.cur][1]
        body = frame[10:]
        if code == 0x06:
            self.read_sys.append(self.cur)
            rsp = self._read(body)
            return self._frame(0x07, idm + rsp)
        if code == 0x08:
            if self.cut_after is not None and self.nwrites >= self.cut_after:
                self.powered = False
                return None
            self.nwframes += 1
            if self.outage is not None and self.outage[0] <= self.nwframes - 1 < sum(self.outage):
                err, scs, lst, rest = parse_lists(body)
                if lst is not None:
                    self.log.append(dict(drop=True, sys=self.cur, sc=[sc for sc, n in lst], blocks=[n for sc, n in lst],
                                         data=bytes(rest), ok=False))
                return None
            n0 = self.nwrites
            rsp = self._write(body)
            if self.cut_after is not None and self.nwrites > n0 and self.nwrites >= self.cut_after:
                self.powered = False
                return None
            return self._frame(0x09, idm + rsp)
        return None

    @staticmethod
    def _frame(code, payload):
        return bytes([2 + len(payload), code]) + payload

    def _polling(self, p):
        if len(p) != 4:
            return None
        sc, rc = p[0:2], p[2]
        for code, idm, pmm in self.systems:
            have = code.to_bytes(2, "big")
            if all(a in (0xFF, b) for a, b in zip(sc, have)):
                rsp = idm + pmm
                if rc == 1:
                    rsp += have
                elif rc == 2:
                    rsp += b"\x00\x83"
                return self._frame(0x01, rsp)
        return None

    def _lists(self, body):
        err, scs, lst, rest = parse_lists(body)
        if err:
            return err, None, None
        for sc in scs:
            if sc == SC_OTHER:
                continue
            if self.cur != self.ndef_pos or not (sc == SC_NDEF_RO or (sc == SC_NDEF_RW and self.writable)):
                return b"\xFF\xA6", lst, rest          # no such service in this system
        return None, lst, rest

    def _area(self, sc):
        return self.others[self.cur] if sc == SC_OTHER else self.blocks

    def _read(self, body):
        err, lst, rest = self._lists(body)
        if err:
            return err
        if rest:
            return b"\xFF\xA2"
        if len(lst) > self.nbr_phys:
            self.breaches.append("read>Nbr")
            return b"\xFF\xA2"
        for i, (sc, num) in enumerate(lst):
            if num >= len(self._area(sc)):
                return bytes([1 << (i % 8), 0xA8])
        self.reads.append([num for sc, num in lst])
        data = b"".join(bytes(self._area(sc)[num]) for sc, num in lst)
        return b"\x00\x00" + bytes([len(lst)]) + data

    def _write(self, body):
        """Every syntactically valid write command is logged (executed or refused)."""
        err, lst, rest = self._lists(body)
        if lst is None:
            return err
        rec = dict(sys=self.cur, sc=[sc for sc, num in lst], blocks=[num for sc, num in lst], data=bytes(rest),
                   ok=False)
        if len(rest) != 16 * len(lst):
            return b"\xFF\xA2"
        self.log.append(rec)
        if err:
            self.breaches.append("write-service-not-available")
            return err
        if len(lst) > self.nbw_phys:
            self.breaches.append("write>Nbw")
            return b"\xFF\xA2"
        for i, (sc, num) in enumerate(lst):
            if sc == SC_NDEF_RO:
                self.breaches.append("write-via-read-only-service")
                return bytes([1 << (i % 8), 0xA6])
            if num >= len(self._area(sc)):
                self.breaches.append("write-beyond-memory")
                return bytes([1 << (i % 8), 0xA8])
        for i, (sc, num) in enumerate(lst):
            self._area(sc)[num][:] = rest[16 * i:16 * i + 16]
            if sc != SC_OTHER and num > 0:
                self.written.add(num)
        self.nwrites += 1
        rec["ok"] = True
        return b"\x00\x00"
