"""Fake `socket` / `select` modules for the nfcpy udp driver (no nfcpy code in here).

The remote party is scripted: `net.reply` is the datagram sent back for every datagram received;
one fault per armed exchange:  Fault(at, kind, arg) with at = 1 (sendto) or 2 (select/recvfrom):
  io_write(errno)  sendto raises OSError(errno)         short_send      sendto reports one byte less
  timeout          nothing arrives                     io_read(errno)  recvfrom raises OSError(errno)
  rfoff            the datagram b"RFOFF"                raw(bytes)      exactly these bytes arrive
"""
import os
import socket as _real_socket

from .chip_pn53x import SimHang


class UFault(object):
    def __init__(self, at, kind, arg=0):
        self.at, self.kind, self.arg = at, kind, arg


class Net(object):
    def __init__(self, clock):
        self.clock = clock
        self.reply = b"106A 00"
        self.card = None             # bit rate / technology the remote party talks (C13, target variants): datagrams
                                     # for another one are not for it and stay unanswered
        self.peer = ("127.0.0.1", 54321)
        self.fault = None
        self.log = []
        self.sent = []
        self.inbox = []

    def arm(self, fault=None):
        self.fault = fault
        self.log = []
        self.sent = []
        self.inbox = []


class FakeSocket(object):
    def __init__(self, net):
        self.net = net
        self.closed = False
        self.name = ("0.0.0.0", 40000)

    def getsockname(self):
        return self.name

    def bind(self, addr):
        self.name = addr

    def close(self):
        self.closed = True

    def fileno(self):
        return 99

    def sendto(self, data, addr):
        net = self.net
        net.log.append("sendto")
        net.sent.append((bytes(data), addr))
        f = net.fault
        if f is not None and f.at == 1:
            if f.kind == "io_write":
                raise OSError(f.arg, os.strerror(f.arg))
            if f.kind == "short_send":
                return len(data) - 1
        if f is not None and f.at == 2:
            if f.kind == "timeout":
                return len(data)
            if f.kind == "rfoff":
                net.inbox.append(b"RFOFF")
                return len(data)
            if f.kind == "raw":
                net.inbox.append(bytes(f.arg))
                return len(data)
        if net.card is not None and bytes(data).split(b" ")[0] != net.card.encode():
            return len(data)
        net.inbox.append(net.reply)
        return len(data)

    def recvfrom(self, n):
        net = self.net
        f = net.fault
        if f is not None and f.at == 2 and f.kind == "io_read":
            raise OSError(f.arg, os.strerror(f.arg))
        return net.inbox.pop(0)[:n], net.peer


class FakeSocketModule(object):
    AF_INET = _real_socket.AF_INET
    SOCK_DGRAM = _real_socket.SOCK_DGRAM
    NI_NUMERICHOST = _real_socket.NI_NUMERICHOST
    error = OSError
    timeout = _real_socket.timeout

    def __init__(self, net):
        self.net = net

    def gethostbyname(self, host):
        return "127.0.0.1"

    def getnameinfo(self, sockaddr, flags):
        return sockaddr[0], str(sockaddr[1])

    def socket(self, family, kind):
        return FakeSocket(self.net)


class FakeSelectModule(object):
    def __init__(self, net):
        self.net = net

    def select(self, r, w, x, timeout=None):
        net = self.net
        f = net.fault
        if len(net.log) < 2:
            net.log.append("recvfrom")       # host command 2 = wait for and read the answer
        if f is not None and f.at == 2 and f.kind == "io_read":
            return list(r), [], []
        if net.inbox:
            return list(r), [], []
        if timeout is None:
            raise SimHang("select() without timeout and nothing will ever arrive")
        net.clock.advance(timeout)
        return [], [], []
