"""A USB bus BELOW nfc.clf.transport.USB: a usb1-style module object, devices, settings, endpoints and a
device handle whose bulk endpoints follow the USB rules (no nfcpy code in here).

bulk OUT   bulkWrite(ep, data) is cut into packets of the endpoint's wMaxPacketSize; only the last packet can
           be shorter (len(data) = 0 is one zero-length packet).  The device firmware sees ONE transfer when a
           short packet arrives; full packets only accumulate in the endpoint buffer.
bulk IN    the firmware queues transfers; bulkRead(ep, length) returns at most one transfer: nothing queued ->
           USBErrorTimeout after `timeout` ms (timeout 0 = wait for ever: SimHang), transfer longer than
           `length` -> USBErrorOverflow, a queued zero-length transfer -> b''.
faults     script entries ("bw", i): ("timeout", sent) | ("nodev", 0) | ("io", 0) | ("pipe", 0) for the i-th
           bulkWrite (1-based), ("br", i): ("timeout", lost) | ("nodev", 0) | ("io", 0) for the i-th bulkRead;
           a bulkRead timeout with lost > 0 happens in the middle of a transfer: `lost` bytes (whole packets)
           were received and travel in USBErrorTimeout.received, the rest stays queued.
Every call and everything the device side observes is appended to `log` (list of small dicts).

Firmware = object with on_transfer(bytes) -> list of bytes (the IN transfers it answers with) and the
attribute cancels_pending (a new OUT transfer makes the device drop what it had queued).
"""
import zlib

from .chip_pn53x import SimHang


def crc(b):
    return zlib.crc32(bytes(b)) & 0x7FFFFFFF


class USBError(Exception):
    value = -99

    def __init__(self, value=None):
        Exception.__init__(self)
        if value is not None:
            self.value = value


class USBErrorIO(USBError):
    value = -1


class USBErrorAccess(USBError):
    value = -3


class USBErrorNoDevice(USBError):
    value = -4


class USBErrorBusy(USBError):
    value = -6


class USBErrorTimeout(USBError):
    value = -7
    transferred = 0
    received = b""


class USBErrorOverflow(USBError):
    value = -8


class USBErrorPipe(USBError):
    value = -9


class Endpoint(object):
    def __init__(self, addr, attr, maxp):
        self.addr, self.attr, self.maxp = addr, attr, maxp

    def getAddress(self):
        return self.addr

    def getAttributes(self):
        return self.attr

    def getMaxPacketSize(self):
        return self.maxp


class Setting(object):
    def __init__(self, endpoints):
        self.endpoints = endpoints

    def iterEndpoints(self):
        return iter(self.endpoints)


class RawFirmware(object):
    """Records the delimited transfers; answers nothing by itself (tests queue IN transfers by hand)."""
    cancels_pending = False

    def __init__(self):
        self.transfers = []

    def on_transfer(self, data):
        self.transfers.append(bytes(data))
        return []


class FrameFirmware(object):
    """The frame-level simulators of sim/chip_*.py (FrameTransport and its subclasses) as device firmware."""
    cancels_pending = True

    def __init__(self, ft):
        self.ft = ft
        self.transfers = []

    def on_transfer(self, data):
        self.transfers.append(bytes(data))
        self.ft.write(bytes(data))
        out = list(self.ft.rx)
        self.ft.rx.clear()
        for x in out:
            if isinstance(x, tuple):
                raise NotImplementedError("io_read fault scripts are not supported below the transport")
        return out


class Handle(object):
    """USBDeviceHandle: the two bulk endpoints of interface 0 with the device behind them."""

    def __init__(self, dev):
        self.dev = dev
        self.claimed = []
        self.closed = False

    def claimInterface(self, number):
        if self.dev.claim_error is not None:
            raise self.dev.claim_error()
        self.claimed.append(number)

    def close(self):
        self.closed = True

    # -- bulk OUT ---------------------------------------------------------------------------------
    def bulkWrite(self, endpoint, data, timeout=0):
        d = self.dev
        data = bytes(data)
        d.nbw += 1
        ep = d.bulk_ep(endpoint & 0x7F, 0x00)
        ev = dict(e="bw", ep=endpoint, n=len(data), h=crc(data), tmo=int(timeout), r="ok", sent=0, pk=[])
        d.log.append(ev)
        if ep is None:
            ev["r"] = "io"
            ev.update(d.out_state())
            raise USBErrorIO()
        mp = ep.maxp
        fault = d.faults.get(("bw", d.nbw))
        limit = fault[1] if fault is not None else len(data)
        packets = [data[i:i + mp] for i in range(0, len(data), mp)] or [b""]
        answers = []
        sent = 0
        for p in packets:
            if fault is not None and sent >= limit:
                break                            # the host controller stops here: timeout / unplugged / stall
            sent += len(p)
            ev["pk"].append(len(p))
            d.obuf += p
            d.osegs.append(len(p))
            if len(p) < mp:                      # short packet: the transfer is complete
                t = bytes(d.obuf)
                d.obuf = bytearray()
                d.osegs = []
                d.ntransfers += 1
                d.last_transfer = t
                answers.append(t)
        ev["sent"] = sent
        if fault is not None:
            ev["r"] = fault[0]
            ev.update(d.out_state())
            self._answers(answers)
            exc = dict(timeout=USBErrorTimeout, nodev=USBErrorNoDevice, io=USBErrorIO, pipe=USBErrorPipe)[fault[0]]()
            if fault[0] == "timeout":
                exc.transferred = sent
            raise exc
        ev.update(d.out_state())
        self._answers(answers)
        return sent

    def _answers(self, transfers):
        d = self.dev
        for t in transfers:
            if d.firmware.cancels_pending and d.inq:
                d.inq = []
                d.log.append(dict(e="dclr"))
            for a in d.firmware.on_transfer(t):
                d.queue_in(a)

    # -- bulk IN ----------------------------------------------------------------------------------
    def bulkRead(self, endpoint, length, timeout=0):
        d = self.dev
        d.nbr += 1
        ep = d.bulk_ep(endpoint & 0x7F, 0x80)
        ev = dict(e="br", ep=endpoint, cap=int(length), tmo=int(timeout), r="ok", n=0, h=0, lost=0)
        d.log.append(ev)
        if ep is None:
            ev["r"] = "io"
            raise USBErrorIO()
        fault = d.faults.get(("br", d.nbr))
        if fault is not None and fault[0] in ("nodev", "io"):
            ev["r"] = fault[0]
            raise (USBErrorNoDevice if fault[0] == "nodev" else USBErrorIO)()
        if fault is not None and fault[0] == "timeout" and fault[1] > 0 and d.inq:
            lost = fault[1]
            head = d.inq[0]
            assert lost % ep.maxp == 0 and lost < len(head), "mid-transfer timeout loses whole packets only"
            d.inq[0] = head[lost:]
            ev.update(r="timeout", lost=lost)
            d.clock.advance(timeout / 1000.0)
            exc = USBErrorTimeout()
            exc.received = head[:lost]
            raise exc
        if not d.inq:
            if not timeout:
                raise SimHang("bulkRead without timeout and nothing will ever arrive")
            ev["r"] = "timeout"
            d.clock.advance(timeout / 1000.0)
            raise USBErrorTimeout()
        t = d.inq.pop(0)
        if len(t) > length:
            ev["r"] = "overflow"
            raise USBErrorOverflow()
        ev.update(n=len(t), h=crc(t))
        return bytes(t)


class Device(object):
    """USBDevice: descriptors + the device side state shared with its handle."""

    def __init__(self, clock, firmware, out_maxp=64, in_maxp=64, vid=0x04CC, pid=0x2533, bus=1, adr=2,
                 manufacturer="SimVendor", product="SimProduct", string_error=False, extra_endpoints=True):
        self.clock, self.firmware = clock, firmware
        self.vid, self.pid, self.bus, self.adr = vid, pid, bus, adr
        self.manufacturer, self.product, self.string_error = manufacturer, product, string_error
        eps = []
        if extra_endpoints:
            eps.append(Endpoint(0x83, 0x03, 8))                 # an interrupt IN endpoint comes first
        eps += [Endpoint(0x04, 0x02, out_maxp), Endpoint(0x84, 0x02, in_maxp)]
        if extra_endpoints:                                     # a second bulk pair that must not be chosen
            eps += [Endpoint(0x05, 0x02, max(8, out_maxp // 2)), Endpoint(0x85, 0x02, max(8, in_maxp // 2))]
        self.settings = [Setting(eps)]
        self.claim_error = None
        self.log = []
        self.faults = {}
        self.nbw = self.nbr = 0
        self.obuf = bytearray()      # bulk OUT endpoint buffer: packets of the unterminated transfer
        self.osegs = []
        self.ntransfers = 0
        self.last_transfer = b""
        self.inq = []                # transfers queued on the bulk IN endpoint
        self.handles = []

    def bulk_ep(self, number, direction):
        """the endpoint the firmware serves (04h OUT / 84h IN); anything else is not connected to it"""
        for e in self.settings[0].endpoints:
            if e.attr & 0x03 == 0x02 and e.addr & 0x7F == number == 0x04 and e.addr & 0x80 == direction:
                return e
        return None

    def out_state(self):
        return dict(nd=self.ntransfers, dl=len(self.last_transfer), dh=crc(self.last_transfer) if self.ntransfers else 0,
                    pend=len(self.obuf))

    def queue_in(self, data):
        data = bytes(data)
        self.inq.append(data)
        self.log.append(dict(e="dsend", n=len(data), h=crc(data)))

    # usb1.USBDevice
    def getBusNumber(self):
        return self.bus

    def getDeviceAddress(self):
        return self.adr

    def getVendorID(self):
        return self.vid

    def getProductID(self):
        return self.pid

    def iterSettings(self):
        return iter(self.settings)

    def getManufacturer(self):
        if self.string_error:
            raise USBErrorIO()
        return self.manufacturer

    def getProduct(self):
        if self.string_error:
            raise USBErrorIO()
        return self.product

    def open(self):
        h = Handle(self)
        self.handles.append(h)
        return h


class Context(object):
    def __init__(self, bus):
        self.bus = bus
        self.exited = False

    def getDeviceList(self, skip_on_error=False):
        return list(self.bus.devices)

    def exit(self):
        self.exited = True

    def __enter__(self):
        return self

    def __exit__(self, *a):
        self.exit()


class Usb1(object):
    """Stands in for the `usb1` module (nfc.clf.transport.libusb)."""
    TRANSFER_TYPE_MASK = 0x03
    TRANSFER_TYPE_BULK = 0x02
    TRANSFER_TYPE_INTERRUPT = 0x03
    ENDPOINT_DIR_MASK = 0x80
    ENDPOINT_IN = 0x80
    ENDPOINT_OUT = 0x00
    USBError, USBErrorIO, USBErrorAccess, USBErrorNoDevice, USBErrorBusy = \
        USBError, USBErrorIO, USBErrorAccess, USBErrorNoDevice, USBErrorBusy
    USBErrorTimeout, USBErrorOverflow, USBErrorPipe = USBErrorTimeout, USBErrorOverflow, USBErrorPipe

    def __init__(self, devices=()):
        self.devices = list(devices)
        self.contexts = []

    def getVersion(self):
        return (1, 0, 26, 11724, "", "sim")

    def USBContext(self):
        c = Context(self)
        self.contexts.append(c)
        return c
