"""Simulated ISO/IEC 14443-4 card (PICC), written from the standard's block protocol rules
(7.5.4 rules C-E, 9-13 and 7.5.6 "the PICC attempts no error recovery"), no nfcpy code inside.

* activation: RATS -> ATS (Type A) or ATTRIB -> answer (Type B); FSCI 0..8 and FWI 0..14 configurable
* block protocol: block number initially 1, toggled on every I-block received (rule D) and on an
  R(ACK) whose number differs (rule E); R(ACK)/R(NAK) with the current number -> last block is
  retransmitted (rule 11); R(NAK) with the other number -> R(ACK) (rule 12); R(ACK) with the other
  number while chaining -> next block (rule 13); chained I-block -> R(ACK); complete command ->
  the applet is called ONCE and its response is sent, chained by `rchunk` bytes; an S(WTX) request
  may replace any freshly produced I-block / chaining R(ACK) (rule 9) as told by `wtx_plan`.
* anything that infringes the rules is ignored (the card stays mute).
The applet callback gets the reassembled command bytes and returns (apdu_id, response bytes).
Every reply is described for the trace as dict(t, bn, ch, a, k, len).
"""

FSC_TABLE = (16, 24, 32, 40, 48, 64, 96, 128, 256)
NONE = dict(t="NONE", bn=0, ch=False, a=0, k=0, len=0)


def desc(t, bn=0, ch=False, a=0, k=0, n=0):
    return dict(t=t, bn=bn, ch=bool(ch), a=a, k=k, len=n)


class SimPicc(object):
    def __init__(self, applet, fsci=8, fwi=4, rchunk=None, wtx_plan=(), wtxm=2, typ="A",
                 nfcid=b"\x08\x11\x22\x33", ats="abc"):
        """ats (Type A): which interface bytes the ATS carries - any subset of "abc" (TA(1), TB(1), TC(1)), or
        "none" for an ATS of TL only.  What is not announced takes the standard's default (FSCI 2, FWI 4), and the
        card itself lives by the announced/default values (self.fsci, self.fwi)."""
        self.applet = applet
        self.ats = ats
        if typ == "A" and ats == "none":
            fsci, fwi = 2, 4
        elif typ == "A" and "b" not in ats:
            fwi = 4
        self.fsci, self.fwi, self.typ = fsci, fwi, typ
        self.fsc = FSC_TABLE[fsci]
        self.fsd = None
        self.rchunk_cfg = rchunk
        self.wtx_plan = list(wtx_plan)     # booleans, one per fresh reply opportunity (or use wtx_now)
        self.wtx_now = False               # set by the harness: replace the next fresh reply of this turn
        self.wtxm = wtxm
        self.nfcid = bytes(nfcid)
        self.active = False
        # block protocol state
        self.bn = 1
        self.last = None                   # (bytes, descriptor)
        self.cbuf = bytearray()
        self.nchunks = 0
        self.rbuf = []                     # remaining (bytes, a, k)
        self.await_wtx = False
        self.pend = None
        self.executed = []                 # apdu ids in execution order
        self.oversize = 0                  # largest frame received (incl. 2 byte EDC) - for BlockFits
        self.last_ex = 0

    # ---- activation -------------------------------------------------------------------------
    def sensb_res(self):
        # 50 | PUPI | application data | protocol info (bit rates, frame size + protocol type, FWI + ADC + FO)
        return bytes([0x50]) + self.nfcid + b"\x00\x00\x00\x00" + bytes([0x00, (self.fsci << 4) | 0x01,
                                                                        (self.fwi << 4) | 0x00])

    def activate(self, cmd):
        cmd = bytes(cmd)
        if self.typ == "A" and len(cmd) == 2 and cmd[0] == 0xE0:
            fsdi = cmd[1] >> 4
            self.fsd = FSC_TABLE[min(fsdi, 8)]
            self.active = True
            # TL T0(TA,TB,TC present | FSCI) [TA] [TB(FWI|SFGI)] [TC] historical bytes
            if self.ats == "none":
                return b"\x01"
            t0 = self.fsci | (0x10 if "a" in self.ats else 0) | (0x20 if "b" in self.ats else 0) | \
                (0x40 if "c" in self.ats else 0)
            body = bytes([t0]) + (b"\x77" if "a" in self.ats else b"") + \
                (bytes([(self.fwi << 4) | 0x01]) if "b" in self.ats else b"") + \
                (b"\x02" if "c" in self.ats else b"") + b"\x80\xC1\xE5"
            return bytes([1 + len(body)]) + body
        if self.typ == "B" and len(cmd) == 9 and cmd[0] == 0x1D and cmd[1:5] == self.nfcid:
            self.fsd = FSC_TABLE[min(cmd[6] & 0x0F, 8)]
            self.active = True
            return b"\x00"
        return None

    @property
    def rchunk(self):
        m = self.fsd - 3
        return m if self.rchunk_cfg is None else max(1, min(m, self.rchunk_cfg))

    # ---- block protocol -----------------------------------------------------------------------
    def _want_wtx(self):
        if self.wtx_now:
            self.wtx_now = False
            return True
        return bool(self.wtx_plan.pop(0)) if self.wtx_plan else False

    def _mk_i(self):
        data, a, k = self.rbuf.pop(0)
        more = len(self.rbuf) > 0
        pcb = 0x02 | (0x10 if more else 0) | self.bn
        return bytes([pcb]) + data, desc("I", self.bn, more, a, k, len(data))

    def _fresh(self, blk):
        """a freshly produced I-block / R(ACK): may be replaced by an S(WTX) request (rule 9)"""
        if self._want_wtx():
            self.pend = blk
            self.await_wtx = True
            blk = (bytes([0xF2, self.wtxm]), desc("WTX", 0, False, 0, 0, 1))
        self.last = blk
        return blk

    def block(self, frame):
        """frame without EDC -> (reply bytes | None, descriptor); self.last_ex = executed apdu id"""
        frame = bytes(frame)
        self.last_ex = 0
        self.oversize = max(self.oversize, len(frame) + 2)
        if not self.active or len(frame) == 0:
            return None, NONE
        pcb = frame[0]
        if pcb & 0xE2 == 0x02 and not pcb & 0x0C:                    # I-block (no CID, no NAD)
            self.bn ^= 1                                             # rule D
            self.cbuf += frame[1:]
            self.nchunks += 1
            self.rbuf, self.await_wtx, self.pend = [], False, None
            if pcb & 0x10:                                           # chaining: acknowledge
                return self._fresh((bytes([0xA2 | self.bn]), desc("RACK", self.bn)))
            cmd, self.cbuf, self.nchunks = bytes(self.cbuf), bytearray(), 0
            a, rsp = self.applet(cmd)                                # executed exactly here
            self.executed.append(a)
            self.last_ex = a
            n = self.rchunk
            self.rbuf = [(rsp[o:o + n], a, o // n + 1) for o in range(0, len(rsp), n)]
            return self._fresh(self._mk_i())
        if pcb & 0xE6 == 0xA2 and len(frame) == 1:                   # R-block
            nak, n = bool(pcb & 0x10), pcb & 1
            if n == self.bn:                                         # rule 11
                return self.last if self.last else (None, NONE)
            if self.await_wtx:
                return None, NONE
            if nak:                                                  # rule 12
                self.last = (bytes([0xA2 | self.bn]), desc("RACK", self.bn))
                return self.last
            if self.rbuf:                                            # rule E + rule 13
                self.bn ^= 1
                return self._fresh(self._mk_i())
            return None, NONE
        if pcb & 0xF7 == 0xF2 and len(frame) == 2:                   # S(WTX) response
            if self.await_wtx and frame[1] & 0x3F == self.wtxm:
                self.await_wtx = False
                blk, self.pend = self.pend, None
                return self._fresh(blk)
            return None, NONE
        return None, NONE
