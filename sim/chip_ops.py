"""Scriptable variants of the simulated chipsets for the discovery / activation operations of C13
(sense_xxx, listen_xxx): no nfcpy code in here.

SimPn53xOps / SimRcs380Ops   the chips of chip_pn53x / chip_rcs380 plus an *air script*: per host command code a
                             queue of response payloads (what the remote device on the simulated air makes the
                             chip answer to successive InListPassiveTarget / InJumpForPSL / TgInitAsTarget /
                             TgGetInitiatorCommand / InCommRF / TgCommRF ...).  An exhausted queue means the
                             air is silent from then on (see SILENCE): a fault is never followed by a second
                             activation attempt of the remote device.
NetOps + fake socket/select  the datagram world of the udp driver: a scripted peer (datagrams that are already
                             waiting, one scripted answer per datagram the local side sends), bind(), and a fault
                             at the k-th socket call (bind / sendto / select+recvfrom).

Fault scripts: chip_pn53x.Fault(at, kind, arg) as before; FaultI adds `idx`, the index of the register value a
"regval" fault replaces (a ReadRegister of several registers).
"""
import os
import socket as _real_socket

from .chip_pn53x import SimPn53x, Fault, SimHang, REG_COMMAND
from .chip_rcs380 import SimRcs380


class FaultI(Fault):
    """idx: which register value a "regval" fault replaces; nbtg: the "status" byte is InListPassiveTarget's number
    of targets -- a chip that found nothing (answer 00, no target data) keeps saying so"""

    def __init__(self, at, kind, arg=0, idx=0, nbtg=False):
        Fault.__init__(self, at, kind, arg)
        self.idx = idx
        self.nbtg = nbtg


# what the chip answers when the scripted air has nothing more to say (None = no response frame at all: the
# command keeps waiting for the remote device and the host's read times out)
SILENCE_PN53X = {
    0x4A: b"\x00",          # InListPassiveTarget: no target
    0x46: b"\x01",          # InJumpForPSL: time out
    0x56: b"\x01",          # InJumpForDEP: time out
    0x40: b"\x01",          # InDataExchange: time out
    0x42: b"\x01",          # InCommunicateThru: time out
    0x8C: None,             # TgInitAsTarget: waits for an initiator
    0x88: None,             # TgGetInitiatorCommand: waits for the next command
    0x86: None,             # TgGetData
}


class SimPn53xOps(SimPn53x):
    def __init__(self, personality="pn532"):
        SimPn53x.__init__(self, personality)
        self.script = {}

    def set_script(self, script):
        self.script = {code: list(q) for code, q in (script or {}).items()}

    def execute(self, code, data):
        f0 = self.fault
        here = f0 is not None and f0.at == self.ncmd + 1
        if here and f0.kind == "status" and getattr(f0, "nbtg", False):
            self.fault = None
            try:
                _, rsp = SimPn53x.execute(self, code, data)
            finally:
                self.fault = f0
            if rsp is not None and len(rsp) > 1:
                rsp = bytes([f0.arg]) + bytes(rsp[1:])
            return f0, rsp
        mine = here and f0.kind == "regval" and getattr(f0, "idx", 0)
        if not mine:
            return SimPn53x.execute(self, code, data)
        self.fault = None
        try:
            _, rsp = SimPn53x.execute(self, code, data)
        finally:
            self.fault = f0
        i = f0.idx + (1 if self.p == "pn533" else 0)
        if rsp is not None and len(rsp) > i:
            rsp = bytes(rsp[:i]) + bytes([f0.arg]) + bytes(rsp[i + 1:])
        return f0, rsp

    def _default(self, code, data):
        if code in self.script:
            q = self.script[code]
            if q:
                return q.pop(0)
            return SILENCE_PN53X.get(code, b"\x00")
        return SimPn53x._default(self, code, data)

    def _write_reg(self, addr, val):
        if addr == REG_COMMAND and val == 0x0D:          # AutoColl: the next frame from the field lands in the FIFO
            self._rx_pending = True
        SimPn53x._write_reg(self, addr, val)


TG_SILENT = b"\x0b\x00\x00" + b"\x80\x00\x00\x00"         # TgCommRF: RECEIVE_TIMEOUT_ERROR
IN_SILENT = b"\x80\x00\x00\x00"                           # InCommRF: RECEIVE_TIMEOUT_ERROR


class SimRcs380Ops(SimRcs380):
    def __init__(self):
        SimRcs380.__init__(self)
        self.script = {}
        self.clock = None            # virtual clock: a silent air costs the receive timeout the host asked for

    def set_script(self, script):
        self.script = {code: list(q) for code, q in (script or {}).items()}

    def _default(self, code, data):
        if code in self.script:
            q = self.script[code]
            if q:
                return q.pop(0)
            if self.clock is not None and code == 0x04 and len(data) >= 2:
                self.clock.advance((data[0] | data[1] << 8) / 1e4)              # units of 100 us
            if self.clock is not None and code == 0x48 and len(data) >= 33:
                self.clock.advance((data[31] | data[32] << 8) / 1e3)            # ms
            return {0x04: IN_SILENT, 0x48: TG_SILENT}.get(code, b"\x00")
        return SimRcs380._default(self, code, data)


# ---------------------------------------------------------------------------------------------------
class UFault(object):
    """at = index of the socket call (1-based, counted from arm()); kinds:
       io(errno)    the call raises OSError(errno)          (bind / sendto / recvfrom)
       short_send   sendto reports one byte less
       lost         the datagram that would have arrived is lost (select times out)
       rfoff        the datagram b"RFOFF" arrives instead
       raw(bytes)   exactly these bytes arrive instead     cut(k)  only the first k bytes of the datagram arrive"""

    def __init__(self, at, kind, arg=0):
        self.at, self.kind, self.arg = at, kind, arg


class NetOps(object):
    def __init__(self, clock):
        self.clock = clock
        self.peer = ("127.0.0.1", 54321)
        self.arm()
        self.set_script((), ())

    def set_script(self, waiting, answers):
        """waiting: datagrams the peer has already sent; answers: the peer's answer to the 1st, 2nd, .. datagram the
        local side sends (None = no answer)."""
        self.inbox = [bytes(x) for x in waiting]
        self.answers = list(answers)

    def arm(self, fault=None):
        self.fault = fault
        self.log = []
        self.sent = []
        self.ncall = 0

    def call(self, name):
        self.ncall += 1
        self.log.append(name)
        f = self.fault
        return f if (f is not None and f.at == self.ncall) else None


class FakeSocket2(object):
    def __init__(self, net):
        self.net = net
        self.closed = False
        self.name = ("0.0.0.0", 40000)

    def getsockname(self):
        return self.name

    def bind(self, addr):
        f = self.net.call("bind")
        if f is not None and f.kind == "io":
            raise OSError(f.arg, os.strerror(f.arg))
        self.name = addr

    def close(self):
        self.closed = True

    def fileno(self):
        return 99

    def sendto(self, data, addr):
        net = self.net
        f = net.call("sendto")
        net.sent.append((bytes(data), addr))
        if f is not None and f.kind == "io":
            raise OSError(f.arg, os.strerror(f.arg))
        ans = net.answers.pop(0) if net.answers else None
        if ans is not None:
            net.inbox.append(bytes(ans))
        if f is not None and f.kind == "short_send":
            return len(data) - 1
        return len(data)

    def recvfrom(self, n):
        net = self.net
        f = net.fault
        if f is not None and f.at == net.ncall and f.kind == "io":
            raise OSError(f.arg, os.strerror(f.arg))
        return net.inbox.pop(0)[:n], net.peer


class FakeSocketModule2(object):
    AF_INET = _real_socket.AF_INET
    SOCK_DGRAM = _real_socket.SOCK_DGRAM
    NI_NUMERICHOST = _real_socket.NI_NUMERICHOST
    error = OSError
    timeout = _real_socket.timeout

    def __init__(self, net):
        self.net = net

    def gethostbyname(self, host):
        return "127.0.0.1"

    def getnameinfo(self, sockaddr, flags):
        return sockaddr[0], str(sockaddr[1])

    def socket(self, family, kind):
        return FakeSocket2(self.net)


class FakeSelectModule2(object):
    """select() + the recvfrom() that follows it are one host command ("recvfrom")."""

    def __init__(self, net):
        self.net = net

    def select(self, r, w, x, timeout=None):
        net = self.net
        f = net.call("recvfrom")
        if f is not None:
            if f.kind == "io":
                return list(r), [], []
            if f.kind == "lost":
                if net.inbox:
                    net.inbox.pop(0)
            elif f.kind == "rfoff" and net.inbox:
                net.inbox[0] = b"RFOFF"
            elif f.kind == "raw" and net.inbox:
                net.inbox[0] = bytes(f.arg)
            elif f.kind == "cut" and net.inbox:          # only the first k bytes of the datagram arrive
                net.inbox[0] = net.inbox[0][:max(0, min(f.arg, len(net.inbox[0]) - 1))]
        if net.inbox:
            return list(r), [], []
        if timeout is None:
            raise SimHang("select() without timeout and nothing will ever arrive")
        net.clock.advance(max(timeout, 0))
        return [], [], []
