"""Deterministic baton scheduler + `threading`/`time` shims for running nfcpy's threaded code.

Logical threads are real OS threads, but exactly one of them holds the baton at any time.  A logical
thread gives the baton back to the scheduler at every *sync point* (lock acquire/release, condition
wait/notify, thread start/exit, sleep, and any explicit `yield_point`), and the scheduler asks a
*chooser* which enabled thread runs next.  Locks, conditions and threads seen by nfcpy are implemented
here (owner, recursion count, waiter lists), so the scheduler knows exactly who is blocked on what:
"no enabled thread and some thread not finished" is a deadlock with a precise blocked-on map.

Use:   sch = Sched(chooser); shim = sch.threading_shim(); nfc.llcp.tco.threading = shim ...
       sch.spawn(fn, "name"); sch.run()
No nfcpy code in here.
"""
import threading as _th
import random
import sys
import traceback


class SchedAbort(BaseException):
    """raised inside logical threads when a run is torn down"""


NEW, READY, BLOCKED, WAITING, JOINING, DONE = "NEW", "READY", "BLOCKED", "WAITING", "JOINING", "DONE"


class LThread(object):
    def __init__(self, sch, fn, name):
        self.sch, self.fn, self.name = sch, fn, name
        self.state = NEW
        self.on = None            # lock / condition / thread we are blocked on
        self.timed = False        # waiting with a timeout (may be timed out by the scheduler)
        self.notified = False
        self.timedout = False
        self.sem = _th.Semaphore(0)
        self.exc = None
        self.result = None
        self.real = None
        self.steps = 0

    def __repr__(self):
        return "<%s %s%s>" % (self.name, self.state, "" if self.on is None else " on %s" % (self.on,))

    def enabled(self, allow_timeout):
        if self.state in (NEW, READY):
            return True
        if self.state == BLOCKED:
            return self.on.owner is None
        if self.state == WAITING:
            return self.notified or (self.timed and allow_timeout)
        if self.state == JOINING:
            return self.on.state == DONE or (self.timed and allow_timeout)
        return False


class Sched(object):
    def __init__(self, chooser, max_steps=20000):
        self.chooser = chooser
        self.threads = []
        self.cur = None
        self.ctl = _th.Semaphore(0)
        self.log = []             # (step, thread name, event, detail)
        self.step = 0
        self.max_steps = max_steps
        self.aborting = False
        self.now = 1000.0         # virtual clock
        self.deadlock = None
        self.stacks = {}
        self.names = {}
        self.observer = None      # callable(event tuple) for trace recording

    # ---- thread bookkeeping ---------------------------------------------------------------
    def me(self):
        t = self.cur
        if t is None or t.real is not _th.current_thread():
            raise RuntimeError("shim used outside a logical thread")
        return t

    def in_logical(self):
        t = self.cur
        return t is not None and t.real is _th.current_thread()

    def spawn(self, fn, name):
        n = self.names.get(name, 0)
        self.names[name] = n + 1
        if n:
            name = "%s#%d" % (name, n)
        t = LThread(self, fn, name)
        t.real = _th.Thread(target=self._boot, args=(t,), daemon=True, name="L:" + name)
        self.threads.append(t)
        t.real.start()
        self.emit(None, "spawn", name)
        return t

    def _boot(self, t):
        t.sem.acquire()
        try:
            if self.aborting:
                raise SchedAbort()
            t.result = t.fn()
        except SchedAbort:
            t.exc = "abort"
        except BaseException as e:     # noqa - thread death is an observable event
            t.exc = e
            t.tb = traceback.format_exc()
        t.state = DONE
        if not self.aborting:
            self.emit(t, "exit", type(t.exc).__name__ if t.exc not in (None, "abort") else "ok")
        self.ctl.release()

    def emit(self, t, ev, detail=None):
        rec = (self.step, t.name if t else "-", ev, detail)
        self.log.append(rec)
        if self.observer:
            self.observer(rec)

    # ---- baton ------------------------------------------------------------------------------
    def switch(self):
        """called by the running logical thread: hand the baton to the scheduler and wait for it"""
        t = self.me()
        if self.aborting:
            raise SchedAbort()
        self.ctl.release()
        t.sem.acquire()
        if self.aborting:
            raise SchedAbort()

    def yield_point(self, what=None):
        if not self.in_logical():
            return
        t = self.me()
        t.state = READY
        self.switch()

    def run(self):
        """run until all threads are done, deadlock, or max_steps.  Returns 'done'|'deadlock'|'steps'."""
        outcome = "done"
        while True:
            live = [t for t in self.threads if t.state != DONE]
            if not live:
                break
            en = [t for t in live if t.enabled(False)]
            if not en:
                en = [t for t in live if t.enabled(True)]      # let a timeout fire: last resort only
                for t in en:
                    pass
                if en:
                    # deterministic: the chooser decides which timed wait expires
                    t = self.chooser.choose(self, en, timeout=True)
                    t.timedout = True
                    self.now += 1.0
                    self._resume(t)
                    continue
                self.deadlock = {t.name: (t.state, repr(t.on)) for t in live}
                frames = sys._current_frames()
                self.stacks = {}
                for t in live:
                    f = frames.get(t.real.ident)
                    st = []
                    while f is not None:
                        fn = f.f_code.co_filename
                        if "/sim/sched.py" not in fn and "threading.py" not in fn:
                            st.append("%s:%d:%s" % ("/".join(fn.split("/")[-2:]), f.f_lineno, f.f_code.co_name))
                        f = f.f_back
                    self.stacks[t.name] = st
                outcome = "deadlock"
                break
            if self.step >= self.max_steps:
                outcome = "steps"
                break
            t = self.chooser.choose(self, en, timeout=False)
            self._resume(t)
        self._teardown()
        return outcome

    def _resume(self, t):
        self.step += 1
        t.steps += 1
        self.cur = t
        t.sem.release()
        self.ctl.acquire()
        self.cur = None

    def _teardown(self):
        self.aborting = True
        for t in self.threads:
            if t.state != DONE:
                self.cur = t
                t.sem.release()
                self.ctl.acquire()
        self.cur = None

    # ---- shims ------------------------------------------------------------------------------
    def threading_shim(self):
        return _ThreadingShim(self)

    def time_shim(self):
        return _TimeShim(self)


class _Lock(object):
    reentrant = False

    def __init__(self, sch, label=None):
        self.sch, self.owner, self.count = sch, None, 0
        self.label = label or "lock%x" % (id(self) & 0xFFFF)

    def __repr__(self):
        return self.label

    def acquire(self, blocking=True, timeout=-1):
        sch = self.sch
        if not sch.in_logical():           # set-up code outside the scheduler: plain ownership
            self.owner, self.count = "ext", self.count + 1
            return True
        me = sch.me()
        sch.yield_point()
        if self.owner is me and self.reentrant:
            self.count += 1
            return True
        while self.owner is not None:
            if not blocking:
                return False
            me.state, me.on, me.timed = BLOCKED, self, False
            sch.switch()
        me.on = None
        self.owner, self.count = me, 1
        sch.emit(me, "acquire", self.label)
        return True

    def release(self):
        sch = self.sch
        if not sch.in_logical():
            self.count -= 1
            if self.count <= 0:
                self.owner, self.count = None, 0
            return
        me = sch.me()
        if sch.aborting:
            self.owner, self.count = None, 0
            return
        if self.owner is not me:
            raise RuntimeError("release of un-owned lock %s by %s" % (self, me))
        self.count -= 1
        if self.count == 0:
            self.owner = None
            sch.emit(me, "release", self.label)
            sch.yield_point()

    __enter__ = acquire

    def __exit__(self, *a):
        self.release()

    def locked(self):
        return self.owner is not None

    def _is_owned(self):
        return self.sch.in_logical() and self.owner is self.sch.me()


class _RLock(_Lock):
    reentrant = True


class _Condition(object):
    def __init__(self, sch, lock=None):
        self.sch = sch
        self.lock = lock if lock is not None else _RLock(sch)
        self.waiters = []
        self.label = "cond%x" % (id(self) & 0xFFFF)

    def __repr__(self):
        return self.label

    def acquire(self, *a, **k):
        return self.lock.acquire(*a, **k)

    def release(self):
        return self.lock.release()

    def __enter__(self):
        return self.lock.acquire()

    def __exit__(self, *a):
        self.lock.release()

    def wait(self, timeout=None):
        sch = self.sch
        me = sch.me()
        lk = self.lock
        if lk.owner is not me:
            raise RuntimeError("cannot wait on un-acquired lock")
        saved = lk.count
        lk.owner, lk.count = None, 0
        me.state, me.on, me.timed = WAITING, self, timeout is not None
        me.notified = me.timedout = False
        self.waiters.append(me)
        sch.emit(me, "wait", self.label)
        sch.switch()
        got = me.notified
        if not got and me in self.waiters:
            self.waiters.remove(me)
        while lk.owner is not None:
            me.state, me.on, me.timed = BLOCKED, lk, False
            sch.switch()
        lk.owner, lk.count = me, saved
        me.on = None
        sch.emit(me, "wake", (self.label, "notified" if got else "timeout"))
        return got

    def notify(self, n=1):
        woken = 0
        while self.waiters and woken < n:
            w = self.waiters.pop(0)
            w.notified = True
            woken += 1
        if self.sch.in_logical():
            self.sch.emit(self.sch.me(), "notify", (self.label, woken))

    def notify_all(self):
        self.notify(len(self.waiters) + 1)

    notifyAll = notify_all


class _ThreadingShim(object):
    """stands in for the `threading` module inside nfcpy modules"""

    def __init__(self, sch):
        self._sch = sch
        sch_ref = sch

        class Thread(object):
            def __init__(self, group=None, target=None, name=None, args=(), kwargs=None, daemon=None):
                self._target, self._args, self._kwargs = target, args, kwargs or {}
                self.name = name or "Thread"
                self.daemon = daemon
                self._lt = None

            def run(self):
                if self._target:
                    self._target(*self._args, **self._kwargs)

            def start(self):
                self._lt = sch_ref.spawn(self.run, str(self.name))
                sch_ref.yield_point()

            def join(self, timeout=None):
                me = sch_ref.me()
                lt = self._lt
                while lt is not None and lt.state != DONE:
                    me.state, me.on, me.timed = JOINING, lt, timeout is not None
                    me.timedout = False
                    sch_ref.switch()
                    if me.timedout:
                        break
                me.on = None

            def is_alive(self):
                return self._lt is not None and self._lt.state != DONE

            isAlive = is_alive

            def setDaemon(self, d):
                self.daemon = d

            def getName(self):
                return self.name

        self.Thread = Thread

    def Lock(self):
        return _Lock(self._sch)

    def RLock(self):
        return _RLock(self._sch)

    def Condition(self, lock=None):
        return _Condition(self._sch, lock)

    def current_thread(self):
        t = self._sch.cur
        return t if t is not None else _th.current_thread()

    currentThread = current_thread

    def Timer(self, *a, **k):
        raise NotImplementedError("Timer is not used by nfcpy under the scheduler")


class _TimeShim(object):
    def __init__(self, sch):
        self._sch = sch

    def time(self):
        return self._sch.now

    def sleep(self, d):
        self._sch.now += max(0.0, d)
        self._sch.yield_point()

    def __getattr__(self, n):
        import time as _t
        return getattr(_t, n)


# ---- choosers -------------------------------------------------------------------------------------
class RandomChooser(object):
    """seeded random schedule; `stick` = probability to keep the running thread when it is enabled"""

    def __init__(self, seed, stick=0.6):
        self.r = random.Random(seed)
        self.stick = stick
        self.last = None
        self.picks = []

    def choose(self, sch, en, timeout):
        en = sorted(en, key=lambda t: t.name)
        if self.last in en and self.r.random() < self.stick:
            t = self.last
        else:
            t = self.r.choice(en)
        self.last = t
        self.picks.append(t.name)
        return t


class ReplayChooser(object):
    """follow a recorded list of thread names; afterwards run the lowest-named enabled thread"""

    def __init__(self, names):
        self.names, self.i = list(names), 0
        self.picks = []
        self.diverged = False

    def choose(self, sch, en, timeout):
        en = sorted(en, key=lambda t: t.name)
        t = None
        if self.i < len(self.names):
            want = self.names[self.i]
            self.i += 1
            for x in en:
                if x.name == want:
                    t = x
            if t is None:
                self.diverged = True
        if t is None:
            t = en[0]
        self.picks.append(t.name)
        return t


class PrefixChooser(object):
    """systematic exploration: follow `prefix` (indices into the sorted enabled list), then a fixed
    default policy (stay on the running thread, else first enabled); records the branching factor seen
    at each step so that a DFS driver can enumerate alternatives up to a preemption bound."""

    def __init__(self, prefix):
        self.prefix = list(prefix)
        self.k = 0
        self.fan = []          # number of enabled threads at each step
        self.taken = []        # index taken at each step
        self.last = None
        self.picks = []

    def choose(self, sch, en, timeout):
        en = sorted(en, key=lambda t: t.name)
        if self.k < len(self.prefix):
            i = min(self.prefix[self.k], len(en) - 1)
        else:
            i = en.index(self.last) if self.last in en else 0
        self.k += 1
        self.fan.append(len(en))
        self.taken.append(i)
        t = en[i]
        self.last = t
        self.picks.append(t.name)
        return t


class PreemptAtChooser(object):
    """fair default policy (the enabled thread that has not run for the longest time goes next) until global step
    `k`; from then on the thread named `favourite` runs whenever it is enabled (until it is done), the others
    follow by the default.  This is the schedule "thread X is preempted exactly at its k-th scheduling point and
    Y runs to completion first"."""

    def __init__(self, k, favourite):
        self.k, self.favourite = k, favourite
        self.n = 0
        self.lastrun = {}
        self.picks = []
        self.points = []       # (step, thread name) of the default prefix: candidates for k

    def choose(self, sch, en, timeout):
        en = sorted(en, key=lambda t: (self.lastrun.get(t.name, -1), t.name))
        t = None
        if self.n >= self.k:
            for x in en:
                if x.name == self.favourite:
                    t = x
        if t is None:
            t = en[0]
        if self.n < self.k:
            self.points.append((self.n, t.name))
        self.lastrun[t.name] = self.n
        self.n += 1
        self.picks.append(t.name)
        return t
