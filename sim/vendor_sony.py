"""Simulated Sony FeliCa products for the vendor classes of nfcpy.  No nfcpy code inside.

SimFelicaStandard: a FeliCa Standard / Mobile FeliCa card with a file system (FeliCa card user's manual):
  * one or more *systems* (system code, own IDm whose upper nibble of byte 0 is the system index);
    Polling (00h) with a system code (FFh wildcards) selects the first matching system;
  * per system an ordered list of *areas* (area code = number << 6 | attribute 00h/01h, end service code) and
    *services* (service code = number << 6 | attribute: 08h..0Bh random, 0Ch..0Fh cyclic, 10h..17h purse;
    odd attribute = access without key), several "overlapped" services may share one block store;
  * Request Service (02h): key versions (FFFFh = not existing); Request Response (04h): mode;
    Read Without Encryption (06h): blocks of services that allow access without key; Search Service Code
    (0Ah): the idx-th area/service of the current system (area: code + end code, service: code, end: FFFFh);
    Request System Code (0Ch): the list of system codes (big endian).
  `commands`: set of supported command codes (older cards lack 0Ah / 0Ch and stay silent).
SimLite: FeliCa Lite / Lite-S (sim/auth_felica.SimFelicaLite) with a write log, power cut after the k-th
executed write and one-way memory-configuration bits (MC_SP bits and MC_ALL only change from 1 to 0 ...).
Answer variants (`mut`): command class name -> list of variants consumed one per occurrence:
"none" | ("trunc", n) | ("extend", bytes) | ("raw", payload bytes after the IDm) | ("idm", bytes).
"""
from .auth_felica import SimFelicaLite, MC, CK, CKV


def area_code(number, can_sub=True):
    return (number << 6) | (0 if can_sub else 1)


class System(object):
    def __init__(self, code, entries):
        """entries: list of ("area", code, end) | ("service", code, [16-byte blocks]) in search order"""
        self.code = int(code)
        self.entries = list(entries)

    def service(self, sc):
        for e in self.entries:
            if e[0] == "service" and e[1] == sc:
                return e
        return None

    def exists(self, code):
        return any(e[1] == code for e in self.entries)


class Variants(object):
    def __init__(self, mut, silent_from):
        self.mut = {k: list(v) for k, v in (mut or {}).items()}
        self.silent_from = silent_from
        self.applied = None
        self.ncmd = 0
        self.dead = False
        self.cmds = []             # (class name, unit or None, answered?)

    def vary(self, name, payload, idm_at=None):
        lst = self.mut.get(name)
        if not lst or payload is None:
            return payload
        v = lst.pop(0)
        if v is None:
            return payload
        self.applied = v if isinstance(v, str) else v[0]
        if v in ("none", "xerr"):        # xerr: the frame is garbled (the fake clf raises TransmissionError)
            return None
        kind, arg = v
        if kind == "trunc":
            return payload[:max(0, len(payload) - arg)]
        if kind == "extend":
            return payload + bytes(arg)
        if kind == "raw" and idm_at is not None:
            return payload[:idm_at + 8] + bytes(arg)
        if kind == "raw":
            return bytes(arg)
        if kind == "idm" and idm_at is not None:
            return payload[:idm_at] + bytes(arg)[:8] + payload[idm_at + 8:]
        return payload


class SimFelicaStandard(Variants):
    def __init__(self, systems, ic_code=0x01, idm=bytes.fromhex("0114b34a0c0d0e0f"), commands=(0, 2, 4, 6, 0x0A, 0x0C),
                 key_version=0x0100, mut=None, silent_from=None, pmm_tail=bytes.fromhex("4b024f4993ff")):
        Variants.__init__(self, mut, silent_from)
        self.systems = list(systems)
        self.idm0 = bytes(idm)
        self.pmm = bytes([0x00, ic_code]) + bytes(pmm_tail)
        self.commands = set(commands)
        self.key_version = key_version
        self.cur = 0
        self.mode = 0

    def idm(self, k=None):
        k = self.cur if k is None else k
        return bytes([(self.idm0[0] & 0x0F) | (k << 4 & 0xF0)]) + self.idm0[1:]

    def sensf_res(self, with_sys=True):
        return b"\x01" + self.idm(0) + self.pmm + (self.systems[0].code.to_bytes(2, "big") if with_sys else b"")

    def activate(self):
        return not self.dead

    def process(self, cmd):
        cmd = bytes(cmd)
        self.ncmd += 1
        self.applied = None
        if self.silent_from is not None and self.ncmd >= self.silent_from:
            self.dead = True
        if self.dead or len(cmd) < 2 or cmd[0] != len(cmd):
            self.cmds.append(("dead" if self.dead else "bad", None, False))
            return None
        name, unit, rsp = self._handle(cmd)
        if self.applied:
            name = "%s~%s" % (name, self.applied)
        self.cmds.append((name, unit, rsp is not None))
        return rsp

    def _frame(self, name, code, body, idm=None):
        r = bytes([code + 1]) + (self.idm() if idm is None else idm) + body
        r = self.vary(name, r, idm_at=1)
        return None if r is None else bytes([(len(r) + 1) & 0xFF]) + r

    def _handle(self, cmd):
        code = cmd[1]
        if code not in self.commands:
            return "unsupported-%02x" % code, None, None
        if code == 0x00:
            if len(cmd) != 6:
                return "POLL-bad", None, None
            sc = cmd[2:4]
            for k, s in enumerate(self.systems):
                if all(a == 0xFF or a == b for a, b in zip(sc, s.code.to_bytes(2, "big"))):
                    self.cur, self.mode = k, 0
                    tail = s.code.to_bytes(2, "big") if cmd[4] == 1 else (b"\x00\x83" if cmd[4] == 2 else b"")
                    return "POLL", None, self._frame("POLL", 0x00, self.pmm + tail)
            return "POLL-other", None, None
        if len(cmd) < 10 or cmd[2:10] not in [self.idm(k) for k in range(len(self.systems))]:
            return "idm", None, None
        if cmd[2:10] != self.idm():
            self.cur = [self.idm(k) for k in range(len(self.systems))].index(cmd[2:10])
        body = cmd[10:]
        sysm = self.systems[self.cur]
        if code == 0x02:
            if len(body) < 1 or len(body) != 1 + 2 * body[0] or not 1 <= body[0] <= 32:
                return "REQSVC-bad", None, None
            out = bytes([body[0]])
            for i in range(body[0]):
                c = body[1 + 2 * i] | body[2 + 2 * i] << 8
                out += (self.key_version if sysm.exists(c) else 0xFFFF).to_bytes(2, "little")
            return "REQSVC", None, self._frame("REQSVC", code, out)
        if code == 0x04:
            return "REQRSP", None, self._frame("REQRSP", code, bytes([self.mode]))
        if code == 0x0A:
            if len(body) != 2:
                return "SEARCH-bad", None, None
            idx = body[0] | body[1] << 8
            if idx >= len(sysm.entries):
                out = b"\xff\xff"
            else:
                e = sysm.entries[idx]
                out = e[1].to_bytes(2, "little") + (e[2].to_bytes(2, "little") if e[0] == "area" else b"")
            return "SEARCH", None, self._frame("SEARCH", code, out)
        if code == 0x0C:
            out = bytes([len(self.systems)]) + b"".join(s.code.to_bytes(2, "big") for s in self.systems)
            return "REQSYS", None, self._frame("REQSYS", code, out)
        if code == 0x06:
            try:
                ns = body[0]
                scs = [body[1 + 2 * i] | body[2 + 2 * i] << 8 for i in range(ns)]
                p = 1 + 2 * ns
                nb = body[p]
                p += 1
                blocks = []
                for _ in range(nb):
                    b0 = body[p]
                    if b0 & 0x80:
                        blocks.append((b0 & 0x0F, body[p + 1]))
                        p += 2
                    else:
                        blocks.append((b0 & 0x0F, body[p + 1] | body[p + 2] << 8))
                        p += 3
            except IndexError:
                return "READ-bad", None, self._frame("READ", code, b"\xff\xa1")
            unit = ("blk", self.cur, tuple(scs), tuple(n for _, n in blocks))
            if not 1 <= nb <= 12:
                return "READ-count", unit, self._frame("READ", code, b"\xff\xa2")
            out = b""
            for i, (si, n) in enumerate(blocks):
                if si >= len(scs):
                    return "READ-order", unit, self._frame("READ", code, bytes([1 << (i % 8), 0xa3]))
                e = sysm.service(scs[si])
                if e is None or not scs[si] & 1:
                    return "READ-service", unit, self._frame("READ", code, bytes([1 << (i % 8), 0xa6]))
                if n >= len(e[2]):
                    return "READ-range", unit, self._frame("READ", code, bytes([1 << (i % 8), 0xa8]))
                out += bytes(e[2][n])
            return "READ", unit, self._frame("READ", code, b"\x00\x00" + bytes([nb]) + out)
        return "unknown", None, None


class SimLite(SimFelicaLite):
    """FeliCa Lite / Lite-S with write log, power cut, answer variants and one-way configuration bits."""

    def __init__(self, kind="lite", cut_after=None, mut=None, silent_from=None, **kw):
        SimFelicaLite.__init__(self, kind, **kw)
        self.v = Variants(mut, silent_from)
        self.writes = []          # (block, data as sent, content before)
        self.cut_after = cut_after
        self.powered = True

    @property
    def cmds(self):
        return self.v.cmds

    @property
    def applied(self):
        return self.v.applied

    def activate(self):
        return self.powered and not self.v.dead

    def power_cycle(self):
        self.powered = True
        self.cut_after = None
        self.ext_auth = False
        self.rc_written = False

    def process(self, cmd):
        v = self.v
        v.ncmd += 1
        v.applied = None
        if v.silent_from is not None and v.ncmd >= v.silent_from:
            v.dead = True
        if v.dead or not self.powered:
            v.cmds.append(("dead", None, False))
            return None
        cmd = bytes(cmd)
        nlog = len(self.log)
        rsp = SimFelicaLite.process(self, cmd)
        code = cmd[1] if len(cmd) > 1 else -1
        name = {0x00: "POLL", 0x06: "READ", 0x08: "WRITE"}.get(code, "unknown")
        unit = None
        if len(self.log) > nlog:
            what = self.log[-1]
            if what[0] == "read":
                unit = ("blk", what[1])
            elif what[0].startswith("write"):
                unit = ("wr", what[1])
                name = {"write": "WRITE", "write-mac": "WRITE", "write-refused": "WRITE-refused",
                        "write-mac-refused": "WRITE-refused"}[what[0]]
        elif code == 0x06:
            name = "READ-err"
        if rsp is not None:
            body = v.vary(name, rsp[1:], idm_at=1)
            rsp = None if body is None else bytes([(len(body) + 1) & 0xFF]) + body
        if v.applied:
            name = "%s~%s" % (name, v.applied)
        v.cmds.append((name, unit, rsp is not None))
        return rsp

    def _store(self, b, data):
        before = bytes(self.mem[b]) if b in self.mem else b""
        data = bytearray(data)
        if b == MC:
            # MC_SP (bytes 0-1), MC_ALL (byte 2) and the Lite-S masks (bytes 6..11) are one-way: a bit once
            # cleared (read-only) / once set (restriction) can not be reverted
            old = self.mem[MC]
            data[0] &= old[0]
            data[1] &= old[1]
            if old[2] != 0xFF:
                data[2] = old[2]
            for i in range(6, 12):
                data[i] |= old[i]
        SimFelicaLite._store(self, b, bytes(data))
        self.writes.append((b, bytes(data), before))
        if self.cut_after is not None and len(self.writes) >= self.cut_after:
            self.powered = False
