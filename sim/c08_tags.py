"""Minimal simulated tags for C08 (activation + NDEF read of arbitrary memory images).  No nfcpy code inside.

Each tag has `process(cmd) -> bytes | None`, `activate()` (a new anticollision/selection), a command log
with the *read unit* every command fetches, and `silent_from`: the tag stops answering for good from its
k-th command on (None = never).  Images are arbitrary bytes; the tags do not interpret them.

Answer variants (`mut`): every answer of the conversation can be replaced by a well-framed variant.  `mut` maps
a command ordinal (int, 1-based) or a command class name as logged ("POLL", "READ", "RALL", "SELECT-fid" ...)
to a list of variants consumed one per occurrence (None = the genuine answer):
  "none"            no answer                     ("trunc", n)   payload without its last n bytes
  ("extend", b)     payload followed by bytes b   ("raw", b)     payload replaced by b
  ("idm", b)        Type 3: another IDm           ("sw", b)      Type 4: another status word
The frame around the payload (Type 3 length byte, Type 4 block header) stays consistent.
"""


class Base(object):
    kind = "?"

    def __init__(self, silent_from=None, mut=None):
        self.silent_from = silent_from
        self.ncmd = 0
        self.dead = False
        self.log = []          # (name, unit or None, answered?)
        self.mut = {k: list(v) for k, v in (mut or {}).items()}
        self.applied = None

    def variant(self, name):
        """the variant for the answer being built (by ordinal first, then by command class), or None"""
        for key in (self.ncmd, name):
            lst = self.mut.get(key)
            if lst:
                v = lst.pop(0)
                if v is not None:
                    return v
        return None

    def vary(self, name, payload, idm_at=None, sw=False):
        """apply the variant to the payload (bytes) -> bytes or None (no answer)"""
        v = self.variant(name)
        if v is None or payload is None:
            return payload
        self.applied = v if isinstance(v, str) else v[0]
        if v == "none":
            return None
        kind, arg = v[0], v[1]
        if kind == "trunc":
            return payload[:max(0, len(payload) - arg)]
        if kind == "extend":
            return payload + bytes(arg)
        if kind == "raw":
            return bytes(arg)
        if kind == "idm" and idm_at is not None:
            return payload[:idm_at] + bytes(arg)[:8] + payload[idm_at + 8:]
        if kind == "sw" and sw and len(payload) >= 2:
            return payload[:-2] + bytes(arg)
        return payload

    def activate(self):
        return not self.dead

    def process(self, cmd):
        cmd = bytes(cmd)
        self.ncmd += 1
        if self.silent_from is not None and self.ncmd >= self.silent_from:
            self.dead = True
        if self.dead:
            self.log.append(("dead", None, False))
            return None
        self.applied = None
        name, unit, rsp = self.handle(cmd)
        if self.applied:
            name = "%s~%s" % (name, self.applied)
        self.log.append((name, unit, rsp is not None))
        return rsp


# ------------------------------------------------------------------------------------------------
class Type1(Base):
    """Topaz-like: HR0/HR1, 120 byte static memory (+ block 15 and 128-byte segments when dynamic).
    size = physical memory in bytes (120, or a multiple of 128 up to 2048)."""
    kind = "T1"

    def __init__(self, hr, mem, silent_from=None, rseg=None, mut=None):
        Base.__init__(self, silent_from, mut)
        self.hr = bytes(hr)
        self.mem = bytearray(mem)
        self.uid = bytes(self.mem[0:4])
        self.rseg = (len(self.mem) > 120) if rseg is None else rseg     # supports READ8 / RSEG

    def rid_res(self):
        return self.hr + self.uid

    def handle(self, cmd):
        name, unit, rsp = self.handle1(cmd)
        return name, unit, self.vary(name, rsp)

    def handle1(self, cmd):
        c = cmd[0]
        if c == 0x78 and len(cmd) == 7:
            return "RID", None, self.hr + self.uid
        if len(cmd) < 7 and c in (0x00, 0x01):
            return "bad", None, None
        if c == 0x00 and len(cmd) == 7:
            if cmd[3:7] != self.uid:
                return "RALL-uid", None, None
            return "RALL", ("rall",), self.hr + bytes(self.mem[0:120])
        if c == 0x01 and len(cmd) == 7:
            a = cmd[1]
            if cmd[3:7] != self.uid or a >= 128 or a >= len(self.mem):
                return "READ-bad", None, None
            return "READ", None, bytes([a, self.mem[a]])
        if c == 0x02 and len(cmd) == 14:
            b = cmd[1]
            if not self.rseg or cmd[10:14] != self.uid or 8 * b + 8 > len(self.mem):
                return "READ8-bad", ("blk", b), None
            return "READ8", ("blk", b), bytes([b]) + bytes(self.mem[8 * b:8 * b + 8])
        if c == 0x10 and len(cmd) == 14:
            s = cmd[1] >> 4
            if not self.rseg or cmd[10:14] != self.uid or 128 * s + 128 > len(self.mem):
                return "RSEG-bad", ("seg", s), None
            return "RSEG", ("seg", s), bytes([cmd[1]]) + bytes(self.mem[128 * s:128 * s + 128])
        return "unknown", None, None


# ------------------------------------------------------------------------------------------------
class Type2(Base):
    """Pages of 4 bytes, READ returns 16 bytes (roll-over to page 0 at the end of memory), NAK beyond
    memory, optional sectors of 256 pages (SECTOR SELECT), optional GET_VERSION answer.  After a NAK or an
    unknown command the tag is mute until the next activation."""
    kind = "T2"

    def __init__(self, mem, silent_from=None, version=None, nak="timeout", uid=None, ulc=False, mut=None):
        Base.__init__(self, silent_from, mut)
        self.mem = bytearray(mem)
        self.version = version          # bytes, "nak" or None (no answer)
        self.nak = nak                  # "timeout" | "byte"
        self.sector = 0
        self.mute = False
        self.sel2 = False
        self.ulc = ulc
        self.uid = bytes(uid or (b"\x04" + bytes(self.mem[1:3]) + bytes(self.mem[4:8])))

    def activate(self):
        if self.dead:
            return False
        self.mute = False
        self.sector = 0
        self.sel2 = False
        return True

    def _nak(self, name, unit=None):
        self.mute = True
        return name, unit, (None if self.nak == "timeout" else b"\x00")

    def handle(self, cmd):
        name, unit, rsp = self.handle2(cmd)
        return name, unit, self.vary(name, rsp)

    def handle2(self, cmd):
        if self.mute:
            return "mute", None, None
        if self.sel2:
            self.sel2 = False
            if len(cmd) == 4:
                s = cmd[0]
                if 1024 * s < len(self.mem):
                    self.sector = s
                    return "SECTOR2", None, None           # passive ACK: no answer
                return self._nak("SECTOR2-nak")
        c = cmd[0]
        if c == 0x30 and len(cmd) == 2:
            page = 256 * self.sector + cmd[1]
            npages = len(self.mem) // 4
            if page >= npages:
                return self._nak("READ-nak", ("page", page))
            out = bytearray()
            p = page
            for _ in range(4):
                if p >= npages:
                    p = 0
                out += self.mem[4 * p:4 * p + 4]
                p += 1
            return "READ", ("page", page), bytes(out)
        if c == 0xC2 and len(cmd) == 2:
            if len(self.mem) > 1024:
                self.sel2 = True
                return "SECTOR1", None, b"\x0a"
            return self._nak("SECTOR1-nak")
        if c == 0x60 and len(cmd) == 1:
            if isinstance(self.version, (bytes, bytearray)):
                return "VERSION", None, bytes(self.version)
            if self.version == "nak":
                self.mute = True
                return "VERSION-nak", None, b"\x00"
            return self._nak("VERSION-none")
        if c == 0x1A and len(cmd) == 2:
            if self.ulc:
                return "AUTH", None, b"\xaf" + bytes(8)
            return self._nak("AUTH-nak")
        if c == 0x3C:
            return "SIG", None, bytes(32)
        return self._nak("unknown")


# ------------------------------------------------------------------------------------------------
class Type3(Base):
    """FeliCa-like: polling, read without encryption of 16-byte blocks (service 000Bh), at most `nbr_max`
    blocks per command, status error for blocks beyond memory."""
    kind = "T3"

    def __init__(self, blocks, idm=bytes.fromhex("02fe000102030405"), pmm=bytes.fromhex("0001ffffffffffff"),
                 sys=b"\x12\xfc", silent_from=None, nbr_max=4, poll_sys=True, systems=None, mut=None):
        Base.__init__(self, silent_from, mut)
        self.blocks = [bytes(b) for b in blocks]
        self.idm, self.pmm, self.sys = bytes(idm), bytes(pmm), bytes(sys)
        self.nbr_max = nbr_max
        self.poll_sys = poll_sys
        self.systems = [bytes(x) for x in (systems or [self.sys])]     # systems the card answers a poll for

    def sensf_res(self, with_sys):
        return b"\x01" + self.idm + self.pmm + (self.sys if with_sys else b"")

    def handle(self, cmd):
        if len(cmd) < 2 or cmd[0] != len(cmd):
            return "bad", None, None
        code = cmd[1]
        if code == 0x00 and len(cmd) == 6:
            sc = cmd[2:4]
            hit = [x for x in self.systems if all(a == 0xFF or a == b for a, b in zip(sc, x))]
            if not hit:
                return "POLL-other", None, None
            r = b"\x01" + self.idm + self.pmm + (hit[0] if cmd[4] == 1 else b"")
            r = self.vary("POLL", r, idm_at=1)
            return "POLL", None, (None if r is None else bytes([(len(r) + 1) & 0xFF]) + r)
        if cmd[2:10] != self.idm:
            return "idm", None, None

        def frame(body):
            r = bytes([code + 1]) + self.idm + body
            r = self.vary("READ", r, idm_at=1)
            return None if r is None else bytes([(len(r) + 1) & 0xFF]) + r
        if code == 0x06:
            body = cmd[10:]
            try:
                ns = body[0]
                p = 1 + 2 * ns
                nb = body[p]
                p += 1
                nums = []
                for _ in range(nb):
                    if body[p] & 0x80:
                        nums.append(body[p + 1])
                        p += 2
                    else:
                        nums.append(body[p + 1] | body[p + 2] << 8)
                        p += 3
            except IndexError:
                return "READ-bad", None, frame(b"\xff\xa1")
            unit = ("blk", tuple(nums))
            if nb == 0 or nb > self.nbr_max:
                return "READ-count", unit, frame(b"\xff\xa2")
            for i, n in enumerate(nums):
                if n >= len(self.blocks):
                    return "READ-range", unit, frame(bytes([1 << (i % 8), 0xa8]))
            return "READ", unit, frame(b"\x00\x00" + bytes([nb]) + b"".join(self.blocks[n] for n in nums))
        return "unknown", None, None


# ------------------------------------------------------------------------------------------------
class Type4(Base):
    """ISO-DEP PICC (type A with RATS/ATS or type B with ATTRIB) with NDEF application(s), CC file and
    files; READ BINARY returns min(Le, short_read, available) bytes (short_read = 0 answers 9000 without
    data).  Tag side chaining for responses longer than the frame size."""
    kind = "T4"

    def __init__(self, files, ats=bytes.fromhex("067577810280"), silent_from=None, aids=("v2", "v1"),
                 short_read=None, short_from=0, short_file=None, fsd=256, attrib_res=b"\x00", type_b=False, mut=None):
        Base.__init__(self, silent_from, mut)
        self.files = {bytes(k): bytes(v) for k, v in files.items()}
        self.ats = bytes(ats)
        self.aids = aids
        self.short_read = short_read
        self.short_from = short_from      # short reads apply to offsets >= short_from ...
        self.short_file = bytes(short_file) if short_file else None       # ... of this file (None: every file)
        self.sel = None
        self.app = False
        self.fsd = fsd
        self.pending = None
        self.attrib_res = bytes(attrib_res)
        self.type_b = type_b

    def handle(self, cmd):
        if not self.type_b and cmd[0] == 0xE0 and len(cmd) == 2:
            return "RATS", None, self.ats
        if self.type_b and cmd[0] == 0x1D:
            return "ATTRIB", None, self.attrib_res
        pcb = cmd[0]
        if pcb & 0xE2 == 0x02:                      # I-block
            if pcb & 0x10:
                return "I-chain", None, bytes([0xA2 | (pcb & 1)])
            name, unit, r = self.apdu(cmd[1:])
            r = self.vary(name, r, sw=True)
            if r is None:
                return name, unit, None
            return name, unit, self._send(pcb & 1, r)
        if pcb & 0xF6 == 0xA2 and self.pending:      # R(ACK) while we chain
            return "R-ack", None, self._send(pcb & 1, None)
        if pcb & 0xF6 == 0xB2:
            return "R-nak", None, bytes([0xA2 | (pcb & 1)])
        return "unknown", None, None

    def _send(self, bn, data):
        if data is not None:
            self.pending = data
        chunk, self.pending = self.pending[:self.fsd - 3], self.pending[self.fsd - 3:]
        more = 0x10 if self.pending else 0
        if not self.pending:
            self.pending = None
        return bytes([0x02 | more | bn]) + chunk

    def apdu(self, a):
        if len(a) < 4:
            return "APDU-short", None, b"\x67\x00"
        cla, ins, p1, p2 = a[0:4]
        body = a[4:]
        if ins == 0xA4:
            lc = body[0] if body else 0
            data = body[1:1 + lc]
            if p1 == 0x04:
                if data == bytes.fromhex("D2760000850101") and "v2" in self.aids:
                    self.app, self.sel = True, None
                    return "SELECT-aid2", None, b"\x90\x00"
                if data == bytes.fromhex("D2760000850100") and "v1" in self.aids:
                    self.app, self.sel = True, None
                    return "SELECT-aid1", None, b"\x90\x00"
                return "SELECT-aid-nf", None, b"\x6a\x82"
            if p1 == 0x00 and self.app and data in self.files:
                self.sel = data
                return "SELECT-fid", ("sel", data.hex()), b"\x90\x00"
            return "SELECT-nf", ("sel", bytes(data).hex()), b"\x6a\x82"        # (a variant may still say 9000)
        if ins == 0xB0:
            if self.sel is None:
                return "READ-nosel", None, b"\x69\x86"
            off = p1 << 8 | p2
            le = 256 if (len(body) == 1 and body[0] == 0) else (body[0] if len(body) == 1 else 0)
            f = self.files[self.sel]
            unit = ("rb", self.sel.hex(), off, le)
            if off >= len(f) and le > 0:
                return "READ-off", unit, b"\x6b\x00"           # offset outside the EF
            n = min(le, len(f) - off)
            if self.short_read is not None and off >= self.short_from and self.short_file in (None, self.sel):
                n = min(n, self.short_read)
            return "READ", unit, f[off:off + n] + b"\x90\x00"
        return "INS-unknown", None, b"\x6d\x00"
