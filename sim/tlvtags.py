"""Stateful simulated Type 1 / Type 2 tags (no nfcpy code inside).

Both take raw command bytes (what nfcpy passes to clf.exchange) and return raw response bytes or raise
SimTimeout (no answer).  Every *state-changing* command is appended to .log as (unit_address, [bytes as sent]);
.cut_after = k drops power after the k-th state-changing command (the k-th is executed and answered, every
later command gets no answer).  One-way bytes (static/dynamic lock bytes, OTP / capability container) are
OR-written as on the real silicon; read-only bytes (UID, reserved blocks) ignore writes.
"""


class SimTimeout(Exception):
    pass


class SimXmitError(Exception):
    """the reader receives a garbled frame (transmission error); the tag did not execute the command"""


class SimTagBase(object):
    def __init__(self):
        self.log = []            # (unit, [bytes]) per state-changing command that was executed
        self.cut_after = None    # power drops after this many state-changing commands
        self.powered = True
        self.ncmd = 0            # all commands received while powered
        self.on_write = None     # callback(unit, bytes) after each executed state-changing command
        self.on_sel = None       # callback(sector) after each executed sector switch (Type 2)
        self.on_fault = None     # callback(kind, at) when a fault is injected
        # transient RF fault: dict(at=<index of the frame counted from arm()>, kind="burst"|"xerr"|"nak")
        #   burst: this frame and the next two are lost (no answer, not executed): one command with its retransmissions
        #   xerr : the frame is not executed, the reader sees a transmission error (one frame)
        #   nak  : the tag answers NAK and does not execute (Type 2)
        self.fault = None
        self.frames = 0          # frames received since arm()
        self.kinds = []          # kind of every frame since arm(): read | write | ss1 | ss2 | other

    def arm(self, fault=None):
        self.fault = fault
        self.frames = 0
        self.kinds = []

    def _inject(self, kind_of_frame):
        """called for every frame that reaches a powered tag; returns None or the fault kind to apply"""
        i = self.frames
        self.frames += 1
        self.kinds.append(kind_of_frame)
        f = self.fault
        if not f:
            return None
        if f["kind"] == "burst" and f["at"] <= i < f["at"] + 3:
            if i == f["at"] and self.on_fault:
                self.on_fault("burst", kind_of_frame)
            return "burst"
        if f["kind"] in ("xerr", "nak") and i == f["at"]:
            if self.on_fault:
                self.on_fault(f["kind"], kind_of_frame)
            return f["kind"]
        return None

    def _state_change(self, unit, data):
        self.log.append((unit, list(data)))
        if self.on_write:
            self.on_write(unit, list(data))
        if self.cut_after is not None and len(self.log) >= self.cut_after:
            self.powered = False

    def check_power(self):
        if self.cut_after is not None and len(self.log) >= self.cut_after:
            self.powered = False
        if not self.powered:
            raise SimTimeout()

    def power_cycle(self):
        self.powered = True
        self.cut_after = None
        self.fault = None
        self._reset_volatile()

    def _reset_volatile(self):
        pass


class SimT2T(SimTagBase):
    """NFC Forum Type 2 Tag: 4-byte pages, READ returns 16 bytes with roll-over to page 0 at the end of the
    sector/memory, WRITE 4 bytes, NAK beyond memory, SECTOR SELECT for > 1 KB."""
    UNIT = 4

    def __init__(self, mem, oneway=(), readonly=()):
        SimTagBase.__init__(self)
        assert len(mem) % 4 == 0
        self.mem = bytearray(mem)
        self.oneway = set(range(10, 16)) | set(oneway)      # static lock bytes, OTP/CC + dynamic lock bytes
        self.readonly = set(range(0, 10)) | set(readonly)   # UID, BCC, internal
        self.sector = 0
        self._sel = False

    def _reset_volatile(self):
        self.sector = 0
        self._sel = False

    @property
    def nsectors(self):
        return (len(self.mem) + 1023) // 1024

    def command(self, data):
        data = bytearray(data)
        self.check_power()
        self.ncmd += 1
        kind = "ss2" if self._sel else {0x30: "read", 0xA2: "write", 0xC2: "ss1"}.get(data[0], "other")
        flt = self._inject(kind)
        if flt is not None:
            self._sel = False               # a tag waiting for packet 2 returns to its normal state, sector unchanged
            if flt == "burst":
                raise SimTimeout()
            if flt == "xerr":
                raise SimXmitError()
            return bytearray([0x00])        # NAK
        if self._sel:                       # SECTOR SELECT packet 2
            self._sel = False
            if len(data) == 4 and data[0] < self.nsectors:
                self.sector = data[0]
                if self.on_sel:
                    self.on_sel(self.sector)
                raise SimTimeout()          # passive ack
            return bytearray([0x00])
        if len(data) == 2 and data[0] == 0x30:
            base = self.sector * 1024
            end = min(len(self.mem), base + 1024)
            a = base + data[1] * 4
            if a >= end:
                return bytearray([0x00])    # NAK
            out = bytearray()
            while len(out) < 16:
                out += self.mem[a:min(a + 16 - len(out), end)]
                a = base                    # roll over
            return out
        if len(data) == 6 and data[0] == 0xA2:
            base = self.sector * 1024
            end = min(len(self.mem), base + 1024)
            a = base + data[1] * 4
            if a >= end:
                return bytearray([0x00])
            for i in range(4):
                if a + i in self.readonly:
                    continue
                if a + i in self.oneway:
                    self.mem[a + i] |= data[2 + i]
                else:
                    self.mem[a + i] = data[2 + i]
            self._state_change(a // 4, data[2:6])
            return bytearray([0x0A])
        if len(data) == 2 and data[0] == 0xC2 and data[1] == 0xFF:
            if self.nsectors > 1:
                self._sel = True
                return bytearray([0x0A])
            return bytearray([0x00])
        raise SimTimeout()                  # unsupported command: the tag goes mute


class SimT1T(SimTagBase):
    """NFC Forum Type 1 Tag (Topaz): static 120 byte (HR0 = 11h) or dynamic (HR0 = 12h) memory."""

    def __init__(self, mem, hr0, hr1=0x48, oneway=(), readonly=()):
        SimTagBase.__init__(self)
        self.mem = bytearray(mem)
        self.hr0, self.hr1 = hr0, hr1
        self.dynamic = (hr0 & 0x0F) != 1
        assert len(self.mem) == 120 if not self.dynamic else len(self.mem) % 128 == 0
        self.uid = bytes(self.mem[0:4])
        self.readonly = set(range(0, 8)) | set(range(104, 112)) | set(readonly)
        self.oneway = set(range(112, 120)) | (set(range(120, 128)) if self.dynamic else set()) | set(oneway)
        self.UNIT = 8 if self.dynamic else 1

    def _store(self, a, v, erase):
        if a in self.readonly:
            return
        if a in self.oneway or not erase:
            self.mem[a] |= v
        else:
            self.mem[a] = v

    def command(self, data):
        data = bytearray(data)
        self.check_power()
        self.ncmd += 1
        c = data[0]
        flt = self._inject("write" if c in (0x53, 0x1A, 0x54, 0x1B) else "read")
        if flt is not None:
            if flt == "xerr":
                raise SimXmitError()
            raise SimTimeout()              # a Type 1 Tag has no NAK: silence
        if c == 0x78 and len(data) == 7:
            return bytearray([self.hr0, self.hr1]) + self.uid
        if bytes(data[-4:]) != self.uid:
            raise SimTimeout()
        if c == 0x00 and len(data) == 7:
            return bytearray([self.hr0, self.hr1]) + self.mem[0:120]
        if c == 0x01 and len(data) == 7:
            a = data[1] & 0x7F
            if a >= min(len(self.mem), 128):
                raise SimTimeout()
            return bytearray([a, self.mem[a]])
        if c in (0x53, 0x1A) and len(data) == 7:
            a = data[1] & 0x7F
            if a >= min(len(self.mem), 128):
                raise SimTimeout()
            self._store(a, data[2], c == 0x53)
            self._state_change(a, [data[2]])
            return bytearray([a, self.mem[a]])
        if not self.dynamic:
            raise SimTimeout()
        if c == 0x10 and len(data) == 14:
            s = data[1] >> 4
            if (s + 1) * 128 > len(self.mem):
                raise SimTimeout()
            return bytearray([data[1]]) + self.mem[s * 128:(s + 1) * 128]
        if c == 0x02 and len(data) == 14:
            b = data[1]
            if (b + 1) * 8 > len(self.mem):
                raise SimTimeout()
            return bytearray([b]) + self.mem[b * 8:b * 8 + 8]
        if c in (0x54, 0x1B) and len(data) == 14:
            b = data[1]
            if (b + 1) * 8 > len(self.mem):
                raise SimTimeout()
            for i in range(8):
                self._store(b * 8 + i, data[2 + i], c == 0x54)
            self._state_change(b, data[2:10])
            return bytearray([b]) + self.mem[b * 8:b * 8 + 8]
        raise SimTimeout()
