"""SimT4T -- a simulated NFC Forum Type 4 Tag (ISO/IEC 14443-4 PICC + ISO/IEC 7816-4 file system).

No nfcpy code inside.  The tag keeps memory (capability container, NDEF file, one proprietary file),
speaks the half-duplex block protocol well enough for fault-free operation (RATS/ATS, I-blocks with
chaining in both directions, R(ACK)/R(NAK) rules 10-13 and D/E) and executes short APDUs
(SELECT by name / by file id, READ BINARY, UPDATE BINARY).  Every executed UPDATE BINARY is logged
(`self.log`, one record per state-changing command) and counted; `cut_after=k` makes the tag lose
power right after the k-th state-changing command was executed (k=0: before the first one) -- from
then on `exchange()` returns None (silence) until `power_on()`.

Strictness (the simulator reports what a conforming reader must never do, it does not crash):
`self.breaches` collects e.g. "Le>MLe", "Lc>MLc", "frame>FSC".
"""

AID_V1 = bytes.fromhex("D2760000850100")
AID_V2 = bytes.fromhex("D2760000850101")
FSC_TABLE = (16, 24, 32, 40, 48, 64, 96, 128, 256)
CC_FID = b"\xE1\x03"


def cc_bytes(ver, mle, mlc, tlv_tag, fid, mfs, rf, wf):
    if tlv_tag == 4:
        tlv = bytes([4, 6]) + fid + mfs.to_bytes(2, "big") + bytes([rf, wf])
    else:
        tlv = bytes([6, 8]) + fid + mfs.to_bytes(4, "big") + bytes([rf, wf])
    body = bytes([ver]) + mle.to_bytes(2, "big") + mlc.to_bytes(2, "big") + tlv
    return (len(body) + 2).to_bytes(2, "big") + body


class SimT4T(object):
    def __init__(self, ver=0x20, tlv_tag=4, mle=0x3B, mlc=0x34, mfs=64, flen=None, rf=0, wf=0,
                 ndef_fid=b"\xE1\x04", ndef=b"", other_fid=b"\xE1\x05", other=b"", fsci=8, fwi=8,
                 uid=bytes.fromhex("04832F9A272D80"), cut_after=None, tech="A", outage=None):
        self.tech = tech
        self.ver, self.tlv_tag, self.mle, self.mlc, self.mfs = ver, tlv_tag, mle, mlc, mfs
        self.rf, self.wf = rf, wf
        self.nlen_size = tlv_tag - 2
        self.ndef_fid, self.other_fid = bytes(ndef_fid), bytes(other_fid)
        flen = mfs if flen is None else flen
        img = bytearray(ndef) + bytearray(max(0, flen - len(ndef)))
        self.files = {
            CC_FID: bytearray(cc_bytes(ver, mle, mlc, tlv_tag, self.ndef_fid, mfs, rf, wf)),
            self.ndef_fid: img,
            self.other_fid: bytearray(other),
        }
        self.fsci, self.fwi, self.uid = fsci, fwi, bytes(uid)
        self.fsc = FSC_TABLE[fsci]
        self.cut_after = cut_after
        # transient outage (k, r): frames are numbered from the first block of the first UPDATE BINARY command
        # (0-based, every PCD frame counts); frames k..k+r-1 do not reach the PICC (no answer, logged with
        # drop=True; the first frame that gets through again is logged with okmark=True)
        self.outage = outage
        self.fidx = None
        self.dropping = False
        self.nwrites = 0           # executed state-changing commands (UPDATE BINARY)
        self.napdu = 0             # executed APDUs of any kind
        self.log = []              # dict(fid=, off=, data=, ok=) per UPDATE BINARY that reached a selected file
        self.reads = []            # (fid, off, le, returned) per executed READ BINARY
        self.breaches = []
        self.powered = True
        self.power_on()
        self.cut_after, self.outage = cut_after, outage      # (power_on() clears the fault scripts)

    # ---- session state ---------------------------------------------------------------------
    def power_on(self):
        """A fresh activation: volatile protocol state is reset, memory is kept."""
        self.powered = True
        self.cut_after = None
        self.outage = None
        self.active = False        # RATS done
        self.bn = 1                # PICC block number (rule C)
        self.fsd = 256
        self.rx_chain = bytearray()
        self.tx_rest = None        # remaining response bytes while PICC chains
        self.last = None           # last block sent (for retransmission, rule 11)
        self.app = False
        self.sel = None
        self.reads = []

    def remote_target(self):
        """Parameters for nfc.clf.RemoteTarget(brty, ...)."""
        if self.tech == "B":
            sensb = b"\x50" + self.uid[:4] + b"\x00\x00\x00\x00" + bytes([0x00, self.fsci << 4 | 1, self.fwi << 4])
            return dict(brty="106B", sensb_res=sensb)
        return dict(brty="106A", sens_res=bytes.fromhex("4403"), sel_res=b"\x20", sdd_res=self.uid)

    def ndef_file(self):
        return bytes(self.files[self.ndef_fid])

    def snapshot(self):
        return {k.hex(): bytes(v) for k, v in self.files.items()}

    # ---- frame level -----------------------------------------------------------------------
    def exchange(self, frame):
        """One PCD frame (without CRC) -> PICC frame or None (no answer)."""
        if not self.powered:
            return None
        frame = bytes(frame)
        if not frame:
            return None
        if not self.active:
            if self.tech == "A" and frame[0] == 0xE0 and len(frame) == 2:           # RATS -> ATS
                fsdi = frame[1] >> 4
                self.fsd = FSC_TABLE[min(fsdi, 8)]
                self.active = True
                return bytes([5, 0x70 | self.fsci, 0x00, self.fwi << 4, 0x00])
            if self.tech == "B" and frame[0] == 0x1D and len(frame) >= 9 and frame[1:5] == self.uid[:4]:
                self.fsd = FSC_TABLE[min(frame[6] & 0x0F, 8)]                        # ATTRIB param 2
                self.active = True
                return b"\x00"
            return None
        if len(frame) + 2 > self.fsc:
            self.breaches.append("frame>FSC")
            return None
        if self.fidx is None and frame[0] & 0xE2 == 0x02 and not self.rx_chain and frame[1:3] == b"\x00\xD6":
            self.fidx = 0
        if self.fidx is not None:
            j, self.fidx = self.fidx, self.fidx + 1
            if self.outage is not None and self.outage[0] <= j < sum(self.outage):
                self.log.append(dict(drop=True))
                self.dropping = True
                return None
            if self.dropping:
                self.dropping = False
                self.log.append(dict(okmark=True))
        pcb = frame[0]
        if pcb & 0xE2 == 0x02 and pcb & 0x0C == 0:              # I-block (no CID, no NAD)
            self.bn ^= 1                                          # rule D
            self.tx_rest = None
            if pcb & 0x10:                                        # chaining: acknowledge
                self.rx_chain += frame[1:]
                return self._send(bytes([0xA2 | self.bn]))
            apdu = bytes(self.rx_chain) + frame[1:]
            self.rx_chain = bytearray()
            rsp = self._apdu(apdu)
            if rsp is None:
                return None
            return self._send_inf(rsp)
        if pcb & 0xE6 == 0xA2:                                    # R-block
            nak = bool(pcb & 0x10)
            if (pcb & 1) == self.bn:                              # rule 11
                return self.last
            if nak:                                               # rule 12
                return bytes([0xA2 | self.bn])
            if self.tx_rest is not None:                          # rule 13 + E
                self.bn ^= 1
                return self._send_inf(self.tx_rest)
            return bytes([0xA2 | self.bn])
        if pcb & 0xC7 == 0xC2:                                    # S-block
            if pcb & 0x30 == 0x00:                                # DESELECT
                self.active = False
                return bytes([0xC2])
            return None
        return None

    def _send(self, blk):
        self.last = blk
        return blk

    def _send_inf(self, data):
        room = self.fsd - 3
        if len(data) > room:
            self.tx_rest = data[room:]
            return self._send(bytes([0x12 | self.bn]) + data[:room])
        self.tx_rest = None
        return self._send(bytes([0x02 | self.bn]) + data)

    # ---- APDU level ------------------------------------------------------------------------
    def _apdu(self, apdu):
        if len(apdu) < 4:
            return b"\x67\x00"
        cla, ins, p1, p2 = apdu[0:4]
        body = apdu[4:]
        data, le = b"", None
        if len(body) == 0:
            pass
        elif len(body) == 1:
            le = body[0] or 256
        else:
            lc = body[0]
            if lc == 0:
                return b"\x67\x00"                               # extended length: not supported
            if len(body) == 1 + lc:
                data = body[1:]
            elif len(body) == 2 + lc:
                data, le = body[1:1 + lc], (body[-1] or 256)
            else:
                return b"\x67\x00"
        if cla != 0x00:
            return b"\x6E\x00"
        if ins in (0xD6,) and self.cut_after is not None and self.nwrites >= self.cut_after:
            self.powered = False                                  # power lost before this command
            return None
        self.napdu += 1
        if ins == 0xA4:
            return self._select(p1, p2, data)
        if ins == 0xB0:
            return self._read(p1, p2, le)
        if ins == 0xD6:
            rsp = self._update(p1, p2, data)
            if self.cut_after is not None and self.nwrites >= self.cut_after and rsp == b"\x90\x00":
                self.powered = False                              # executed, answer never arrives
                return None
            return rsp
        return b"\x6D\x00"

    def _select(self, p1, p2, data):
        if p1 == 0x04:
            want = AID_V1 if self.ver >> 4 == 1 else AID_V2
            if p2 == 0x00 and data == want:
                self.app, self.sel = True, None
                return b"\x90\x00"
            self.app, self.sel = False, None
            return b"\x6A\x82"
        if p1 == 0x00:
            if not self.app:
                return b"\x69\x85"
            if p2 != (0x00 if self.ver >> 4 == 1 else 0x0C):
                return b"\x6A\x86"
            if bytes(data) in self.files:
                self.sel = bytes(data)
                return b"\x90\x00"
            return b"\x6A\x82"
        return b"\x6A\x86"

    def _read(self, p1, p2, le):
        if self.sel is None:
            return b"\x69\x86"
        if le is None:
            return b"\x67\x00"
        if p1 & 0x80:
            return b"\x6B\x00"
        if self.sel == self.ndef_fid and self.rf != 0:
            return b"\x69\x82"
        if le > self.mle and self.sel != CC_FID:
            self.breaches.append("Le>MLe")
            return b"\x67\x00"
        f = self.files[self.sel]
        off = p1 << 8 | p2
        if off >= len(f) and not (off == 0 and len(f) == 0):
            self.reads.append((self.sel.hex(), off, le, -1))
            return b"\x6B\x00"
        out = bytes(f[off:off + le])
        self.reads.append((self.sel.hex(), off, le, len(out)))
        return out + b"\x90\x00"

    def _update(self, p1, p2, data):
        """Every UPDATE BINARY with a file selected is logged (executed or refused)."""
        if self.sel is None:
            return b"\x69\x86"
        off = p1 << 8 | p2
        rec = dict(fid=self.sel.hex(), off=off, data=bytes(data), ok=False)
        self.log.append(rec)
        sw = self._update_check(p1, data, off)
        if sw != b"\x90\x00":
            return sw
        f = self.files[self.sel]
        f[off:off + len(data)] = data
        self.nwrites += 1
        rec["ok"] = True
        return sw

    def _update_check(self, p1, data, off):
        if p1 & 0x80:
            self.breaches.append("update-offset>7FFF")
            return b"\x6B\x00"
        if len(data) == 0:
            return b"\x67\x00"
        if self.sel == CC_FID:
            self.breaches.append("update-CC")
            return b"\x69\x82"
        if self.sel == self.ndef_fid and self.wf != 0:
            self.breaches.append("update-readonly")
            return b"\x69\x82"
        if len(data) > self.mlc:
            self.breaches.append("Lc>MLc")
            return b"\x67\x00"
        if off + len(data) > len(self.files[self.sel]):
            self.breaches.append("update-beyond-file")
            return b"\x6A\x84"
        return b"\x90\x00"
