"""Simulated contactless *device* (the object behind ContactlessFrontend.device) and what is in its field.

Used by C15 (who calls the driver, from which thread, holding which lock) and C18 (what connect()/sense()
do with a tag that disappears, a peer that releases, a reader that leaves).  No nfcpy code in here: the
classes of nfc.clf that a driver has to return / raise are passed in as a namespace `ns`
(RemoteTarget, LocalTarget, TimeoutError, BrokenLinkError, UnsupportedTargetError, ProtocolError).

    clock  = Clock()                         virtual time: a lost frame costs exactly its timeout
    dev    = SimDevice(ns, env, clock)       env: Nothing() | T2Tag(k) | Peer(role, k) | Reader(j) | ...
    dev.observer = fn(phase, method, info)   phase "enter"/"exit" around every driver method

Every driver method appends (method, info) to dev.log; dev.field tells whether the device generates a carrier.
"""
import time as _real_time


class Clock(object):
    def __init__(self, now=1000.0):
        self.now = now
        self.on_sleep = None      # callable(seconds) -> None (C15: a scheduling point)
        self.sleeps = 0
        self.sleep_log = []       # every argument time.sleep() was called with

    def time(self):
        return self.now

    def sleep(self, d):
        self.sleep_log.append(d)
        if d < 0:
            raise ValueError("sleep length must be non-negative")      # as the real time.sleep()
        self.now += d
        self.sleeps += 1
        if self.on_sleep is not None:
            self.on_sleep(d)


class FakeTimeModule(object):
    """drop-in for the `time` module attribute of nfc.clf / nfc.dep / nfc.llcp.llc"""

    def __init__(self, clock):
        self._clock = clock
        self.time = clock.time
        self.sleep = clock.sleep

    def __getattr__(self, name):
        return getattr(_real_time, name)


# --------------------------------------------------------------------------------------------------
# What is in the field

class Nothing(object):
    name = "nothing"

    def sense(self, dev, kind, target):
        return None

    def listen(self, dev, kind, target, timeout):
        return None

    def command(self, dev, data, timeout):
        raise dev.ns.TimeoutError("no response")

    def response(self, dev, data, timeout):
        raise dev.ns.TimeoutError("no command")


class T2Tag(Nothing):
    """A plain Type 2 tag (UID not from NXP so that no vendor probing happens) that answers `budget`
    commands; the next command gets no answer and the tag has left the field from then on (budget None: stays)."""
    name = "tag"
    UID = bytes.fromhex("08112233445566")

    def __init__(self, budget=None, nxp=False):
        self.budget = budget
        if nxp:                                   # NTAG213: vendor probing (AUTHENTICATE, GET_VERSION) on activation
            self.UID = bytes.fromhex("04112233445566")
        self.version = bytes.fromhex("0004040201000F03") if nxp else None
        self.mem = bytearray(64)
        self.mem[0:8] = self.UID + b"\x00"
        self.mem[12:16] = bytes.fromhex("E1100600")
        self.mem[16:20] = bytes.fromhex("0300FE00")
        self.selected = False
        self.gone = False

    @property
    def present(self):
        return not self.gone

    def sense(self, dev, kind, target):
        if kind != "tta" or not self.present:
            return None
        sel_req = getattr(target, "sel_req", None)
        if sel_req and bytes(sel_req) != self.UID:
            return None
        self.selected = True
        return dict(brty="106A", sens_res=b"\x44\x00", sel_res=b"\x00", sdd_res=self.UID)

    def command(self, dev, data, timeout):
        if not self.present or not self.selected:
            raise dev.ns.TimeoutError("tag gone")
        if len(data) == 2 and data[0] == 0x30:
            if self.budget is not None and dev.counting:
                if self.budget <= 0:
                    self.gone = True
                    raise dev.ns.TimeoutError("tag left")
                self.budget -= 1
            p = (data[1] * 4) % len(self.mem)
            return bytearray((self.mem + self.mem)[p:p + 16])
        if data[0] == 0x60 and self.version:
            return bytearray(self.version)
        self.selected = False                     # a Type 2 tag goes mute on an unknown command
        raise dev.ns.TimeoutError("mute")


class T1Tag(Nothing):
    """Type 1 tag (static memory): answers RID and `budget` READ commands, then leaves the field."""
    name = "tag"
    UID = bytes.fromhex("B2565400")

    def __init__(self, budget=None):
        self.budget, self.gone = budget, False
        self.mem = bytearray(120)
        self.mem[0:4] = self.UID
        self.mem[8:12] = bytes.fromhex("E1100E00")

    def sense(self, dev, kind, target):
        if kind != "tta" or self.gone:
            return None
        return dict(brty="106A", sens_res=b"\x00\x0C", rid_res=b"\x11\x48" + self.UID)

    def command(self, dev, data, timeout):
        if self.gone:
            raise dev.ns.TimeoutError("tag gone")
        data = bytes(data)
        if data[0] == 0x78:
            return bytearray(b"\x11\x48" + self.UID)
        if data[0] == 0x01 and data[3:7] == self.UID:
            if self.budget is not None and dev.counting:
                if self.budget <= 0:
                    self.gone = True
                    raise dev.ns.TimeoutError("tag left")
                self.budget -= 1
            return bytearray([data[1], self.mem[data[1] % 120]])
        raise dev.ns.TimeoutError("not supported")


class T3Tag(Nothing):
    """Type 3 tag: answers `budget` polling commands after discovery, then leaves the field."""
    name = "tag"
    IDM = bytes.fromhex("01010701260CCA02")
    PMM = bytes.fromhex("FFFFFFFFFFFFFFFF")
    SYS = bytes.fromhex("12FC")

    def __init__(self, budget=None):
        self.budget, self.gone = budget, False

    def sense(self, dev, kind, target):
        if kind != "ttf" or self.gone:
            return None
        return dict(brty=target.brty, sensf_res=b"\x01" + self.IDM + self.PMM + self.SYS)

    def command(self, dev, data, timeout):
        if self.gone:
            raise dev.ns.TimeoutError("tag gone")
        data = bytes(data)
        if len(data) == 6 and data[1] == 0x00:
            if self.budget is not None and dev.counting:
                if self.budget <= 0:
                    self.gone = True
                    raise dev.ns.TimeoutError("tag left")
                self.budget -= 1
            rsp = b"\x01" + self.IDM + self.PMM + (self.SYS if data[4] == 1 else b"")
            return bytearray(bytes([len(rsp) + 1]) + rsp)
        raise dev.ns.TimeoutError("not supported")


class T4Tag(Nothing):
    """Type 4A tag: answers RATS and `budget` presence checks (R(NAK) -> R(ACK)), then leaves the field."""
    name = "tag"
    UID = bytes.fromhex("08A1B2C3")

    def __init__(self, budget=None):
        self.budget, self.gone = budget, False

    def sense(self, dev, kind, target):
        if kind != "tta" or self.gone:
            return None
        return dict(brty="106A", sens_res=b"\x04\x00", sel_res=b"\x20", sdd_res=self.UID)

    def command(self, dev, data, timeout):
        if self.gone:
            raise dev.ns.TimeoutError("tag gone")
        data = bytes(data)
        if data[0] == 0xE0:
            return bytearray(bytes.fromhex("0578804000"))
        if data[0] & 0xF6 == 0xB2:
            if self.budget is not None and dev.counting:
                if self.budget <= 0:
                    self.gone = True
                    raise dev.ns.TimeoutError("tag left")
                self.budget -= 1
            return bytearray([0xA2 | (data[0] & 1)])
        raise dev.ns.TimeoutError("not supported")


class T4BTag(Nothing):
    """Type 4B tag: answers ATTRIB and `budget` presence checks, then leaves the field."""
    name = "tag"
    SENSB_RES = bytes.fromhex("50E8253EEC00000011008185")

    def __init__(self, budget=None):
        self.budget, self.gone = budget, False

    def sense(self, dev, kind, target):
        if kind != "ttb" or self.gone:
            return None
        return dict(brty="106B", sensb_res=self.SENSB_RES)

    def command(self, dev, data, timeout):
        if self.gone:
            raise dev.ns.TimeoutError("tag gone")
        data = bytes(data)
        if data[0] == 0x1D and data[1:5] == self.SENSB_RES[1:5]:
            return bytearray(b"\x00")
        if data[0] & 0xF6 == 0xB2:
            if self.budget is not None and dev.counting:
                if self.budget <= 0:
                    self.gone = True
                    raise dev.ns.TimeoutError("tag left")
                self.budget -= 1
            return bytearray([0xA2 | (data[0] & 1)])
        raise dev.ns.TimeoutError("not supported")


class Peer(Nothing):
    """An NFC-DEP / LLCP peer.  role = the role the PEER plays ("target": we find it as initiator;
    "initiator": it activates us while we listen).  It answers `exchanges` LLC PDU exchanges with SYMM
    after link activation and then releases (initiator: RLS_REQ; target: silence)."""
    name = "peer"
    NFCID3 = bytes.fromhex("01FE0102030405065354")
    GB = bytes.fromhex("46666D010113")

    def __init__(self, role, exchanges):
        self.role = role
        self.left = exchanges
        self.gone = False
        self.brty = "106A"
        self.pni = 0
        self.active = False

    # --- peer is target --------------------------------------------------------------------------
    def sense(self, dev, kind, target):
        if self.role != "target" or self.gone:
            return None
        if kind == "tta":
            self.brty = "106A"
            return dict(brty="106A", sens_res=b"\x01\x01", sel_res=b"\x40", sdd_res=b"\x08\x01\x02\x03")
        if kind == "ttf":
            req = bytes(getattr(target, "sensf_req", None) or b"")
            if req[1:3] in (b"\xFF\xFF",) or not req:
                self.brty = target.brty
                return dict(brty=target.brty, sensf_res=b"\x01" + self.NFCID3[:8] + bytes(8))
        return None

    def _frame(self, body):
        f = bytes([len(body) + 1]) + body
        return bytearray((b"\xF0" if self.brty == "106A" else b"") + f)

    def command(self, dev, data, timeout):
        if self.role != "target" or self.gone:
            raise dev.ns.TimeoutError("peer gone")
        data = bytes(data)
        if self.brty == "106A":
            data = data[1:]
        body = data[1:]
        if body[0] != 0xD4:
            raise dev.ns.TimeoutError("not nfc-dep")
        code = body[1]
        if code == 0x00:                          # ATR_REQ -> ATR_RES
            self.pni = 0
            self.active = True
            return self._frame(b"\xD5\x01" + self.NFCID3 + bytes([0, 0, 0, 8, 0x32]) + self.GB)
        if code == 0x04:                          # PSL_REQ -> PSL_RES, then the new bit rate applies
            rsp = self._frame(b"\xD5\x05" + body[2:3])
            self.brty = "424F" if body[3] & 0x3F else self.brty
            return rsp
        if code == 0x06:                          # DEP_REQ
            pfb = body[2]
            if pfb & 0xE0 == 0x00:                # information pdu
                if self.left <= 0:
                    self.gone = True
                    raise dev.ns.TimeoutError("peer left")
                self.left -= 1
                return self._frame(b"\xD5\x07" + bytes([pfb & 0x03]) + b"\x00\x00")
            if pfb & 0xE0 == 0x80:                # attention
                return self._frame(b"\xD5\x07" + bytes([pfb]))
            raise dev.ns.TimeoutError("unexpected pfb")
        if code == 0x08:
            self.gone = True
            return self._frame(b"\xD5\x09")
        if code == 0x0A:
            self.gone = True
            return self._frame(b"\xD5\x0B")
        raise dev.ns.TimeoutError("unknown")

    # --- peer is initiator -----------------------------------------------------------------------
    def listen(self, dev, kind, target, timeout):
        if self.role != "initiator" or self.gone or kind != "dep":
            return None
        self.brty = "424F"
        self.pni = 0
        self.active = True
        atr_req = b"\xD4\x00" + self.NFCID3 + bytes([0, 0, 0, 0x32]) + self.GB
        return dict(brty="424F", atr_req=atr_req, atr_res=bytes(target.atr_res),
                    sensf_res=bytes(target.sensf_res), dep_req=b"\xD4\x06\x00\x00\x00")

    def response(self, dev, data, timeout):
        if self.role != "initiator" or self.gone:
            raise dev.ns.TimeoutError("peer gone")
        if data is None:
            self.gone = True                      # we stopped answering: the initiator gives up
            raise dev.ns.TimeoutError("nothing more from the initiator")
        body = bytes(data)[1:]
        if body[:2] == b"\xD5\x07" and body[2] & 0xE0 == 0x00:
            if self.left <= 0:
                self.gone = True
                return self._frame(b"\xD4\x0A")   # RLS_REQ
            self.left -= 1
            self.pni = (self.pni + 1) & 3
            return self._frame(b"\xD4\x06" + bytes([self.pni]) + b"\x00\x00")
        self.gone = True
        raise dev.ns.TimeoutError("initiator done")


class Reader(Nothing):
    """A reader that discovers us while we listen as a Type 3 tag, sends its first command with the
    activation, then `commands` more (polling) and leaves the field."""
    name = "reader"

    def __init__(self, commands, error_at=None):
        self.left = commands
        self.gone = False
        self.error_at = error_at     # the n-th further command arrives corrupted (CommunicationError)
        self.n = 0

    def listen(self, dev, kind, target, timeout):
        if self.gone or kind != "ttf":
            return None
        idm = bytes(target.sensf_res[1:9])
        return dict(brty=target.brty, sensf_req=b"\x00\xFF\xFF\x01\x00", sensf_res=bytes(target.sensf_res),
                    tt3_cmd=b"\x06" + idm + b"\x01\x0b\x00\x01\x80\x00")

    def response(self, dev, data, timeout):
        if self.gone:
            raise dev.ns.BrokenLinkError("reader left")
        if self.left <= 0:
            self.gone = True
            raise dev.ns.BrokenLinkError("reader left")
        self.left -= 1
        self.n += 1
        if self.error_at is not None and self.n == self.error_at:
            raise dev.ns.TransmissionError("crc")
        return bytearray(b"\x06\x00\xFF\xFF\x01\x00")


class Faulty(Nothing):
    """The local device fails: every discovery attempt raises `exc` (IOError / UnsupportedTargetError)."""
    name = "faulty"

    def __init__(self, make_exc):
        self.make_exc = make_exc

    def sense(self, dev, kind, target):
        raise self.make_exc()

    def listen(self, dev, kind, target, timeout):
        raise self.make_exc()


# --------------------------------------------------------------------------------------------------
class SimDevice(object):
    vendor_name = "Sim"
    product_name = "Device"
    chipset_name = "none"
    path = "sim:0"

    def __init__(self, ns, env, clock=None):
        self.ns, self.env = ns, env
        self.clock = clock or Clock()
        self.log = []
        self.field = False
        self.closed = False
        self.sense_cost = 0.0
        self.counting = True      # tag budgets are consumed (a harness may restrict this to the presence phase)
        self.fault_hook = None    # callable(data) -> exception instance to raise instead of exchanging, or None
        self.fail_close = False
        self.led = False
        self.observer = None
        self.max_send = 290
        self.max_recv = 290

    def __str__(self):
        return "Sim Device at sim:0"

    # every driver method goes through _call so that observers see enter/exit and the log is complete
    def _call(self, method, fn, info=None):
        if self.observer is not None:
            self.observer("enter", method, info)
        try:
            res = fn()
            self.log.append((method, info if info is not None else "", "ok"))
            return res
        except BaseException as e:
            self.log.append((method, info if info is not None else "", type(e).__name__))
            raise
        finally:
            if self.observer is not None:
                self.observer("exit", method, info)

    def close(self):
        def f():
            self.closed = True
            self.field = False
            if self.fail_close:                 # the transport is released, but the driver reports a failure
                raise IOError(5, "simulated: reader vanished during close")
        return self._call("close", f)

    def mute(self):
        def f():
            self.field = False
        return self._call("mute", f)

    def _sense(self, kind, target):
        def f():
            self.clock.now += self.sense_cost       # one discovery attempt takes this long (virtual time)
            try:
                r = self.env.sense(self, kind, target)
            except (self.ns.UnsupportedTargetError, IOError):
                raise                               # refused / host link failed before the carrier was switched on
            except BaseException:
                self.field = True
                raise
            self.field = True
            if r is None:
                return None
            r = dict(r)
            t = self.ns.RemoteTarget(r.pop("brty"))
            for k, v in r.items():
                setattr(t, k, bytearray(v))
            for k in ("sel_req", "sensf_req", "sensb_req", "atr_req"):
                v = target.__dict__.get(k)
                if v is not None:
                    setattr(t, k, v)
            t.__dict__["_sim_from"] = target.__dict__.get("_sim_idx")
            return t
        return self._call("sense_" + kind, f, target.__dict__.get("_sim_idx", target.brty))

    def sense_tta(self, target):
        return self._sense("tta", target)

    def sense_ttb(self, target):
        return self._sense("ttb", target)

    def sense_ttf(self, target):
        return self._sense("ttf", target)

    def sense_dep(self, target):
        return self._sense("dep", target)

    def _listen(self, kind, target, timeout):
        def f():
            self.field = False
            r = self.env.listen(self, kind, target, timeout)
            if r is None:
                self.clock.now += max(0.0, timeout or 0.0)
                return None
            r = dict(r)
            t = self.ns.LocalTarget(r.pop("brty"))
            for k, v in r.items():
                setattr(t, k, bytearray(v))
            return t
        return self._call("listen_" + kind, f, kind)

    def listen_tta(self, target, timeout):
        return self._listen("tta", target, timeout)

    def listen_ttb(self, target, timeout):
        return self._listen("ttb", target, timeout)

    def listen_ttf(self, target, timeout):
        return self._listen("ttf", target, timeout)

    def listen_dep(self, target, timeout):
        return self._listen("dep", target, timeout)

    def send_cmd_recv_rsp(self, target, data, timeout):
        def f():
            if self.fault_hook is not None:
                exc = self.fault_hook(data)
                if exc is not None:
                    if isinstance(exc, self.ns.TimeoutError):
                        self.clock.now += max(0.0, timeout or 0.0)
                    raise exc
            try:
                return self.env.command(self, data, timeout)
            except self.ns.TimeoutError:
                self.clock.now += max(0.0, timeout or 0.0)
                raise
        return self._call("send_cmd_recv_rsp", f, len(data) if data is not None else -1)

    def send_rsp_recv_cmd(self, target, data, timeout=None):
        def f():
            try:
                return self.env.response(self, data, timeout)
            except self.ns.TimeoutError:
                self.clock.now += max(0.0, timeout or 0.0)
                raise
        return self._call("send_rsp_recv_cmd", f, len(data) if data is not None else -1)

    def get_max_send_data_size(self, target):
        return self._call("get_max_send_data_size", lambda: self.max_send)

    def get_max_recv_data_size(self, target):
        return self._call("get_max_recv_data_size", lambda: self.max_recv)

    def turn_on_led_and_buzzer(self):
        def f():
            self.led = True
        return self._call("turn_on_led_and_buzzer", f)

    def turn_off_led_and_buzzer(self):
        def f():
            self.led = False
        return self._call("turn_off_led_and_buzzer", f)
