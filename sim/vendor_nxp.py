"""Simulated NXP Type 2 products: MIFARE Ultralight (MF0ICU1), Ultralight C (MF0ICU2), Ultralight EV1
(MF0UL11/MF0ULH11/MF0UL21/MF0ULH21), NTAG203, NTAG210/212/213/215/216, NTAG I2C 1k/2k (NT3H1101/1201).
No nfcpy code inside.

Written from the product data sheets:
  * pages of 4 bytes; READ (30h) returns 16 bytes and rolls over to page 0 behind the last readable page;
    WRITE (A2h); a NAK (4 bit) or an unknown command returns the tag to IDLE: it stays mute until it is
    selected again (`activate()`);
  * page 2 bytes 2-3 (static lock bytes), page 3 (OTP / capability container) and the dynamic lock bytes
    are OR-written (one-way); a page whose lock bit is set answers WRITE with NAK; the block-locking bits
    freeze the lock bits of their group;
  * Ultralight C: AUTHENTICATE (1Ah 00h / AFh) with two-key 3DES in CBC mode over the whole exchange
    (IV 0 for ek(RndB), then the last cipher block), key in pages 2Ch..2Fh (write only, stored byte
    reversed per key half), AUTH0 (page 2Ah byte 0: first page that needs authentication, 30h = none),
    AUTH1 (page 2Bh bit 0: 1 = write access restricted, 0 = read and write restricted); lock byte 3 bits
    4..7 lock the counter, AUTH0, AUTH1 and the key pages;
  * NTAG21x / Ultralight EV1: GET_VERSION (60h), READ_SIG (3Ch), PWD_AUTH (1Bh: PWD equal -> PACK, else
    NAK; AUTHLIM counts failed attempts), CFG0 (MIRROR, RFU, MIRROR_PAGE, AUTH0), CFG1 (ACCESS: PROT 80h,
    CFGLCK 40h, NFC_CNT_EN 10h, NFC_CNT_PWD_PROT 08h, AUTHLIM 07h), PWD and PACK (read back as zero);
  * NTAG I2C: SECTOR SELECT (C2h FFh + 4 byte packet, passive ACK), sector 0 user memory, dynamic lock
    bytes (E2h / sector 1 E0h), configuration registers E8h/E9h, session registers in sector 3 F8h/F9h.
`latch`: "activate" - a changed configuration (key, AUTH0, AUTH1/PROT, PWD, PACK, CFGLCK) is taken over with the
next activation (the values are loaded at power-up); "immediate" - it is effective with the WRITE.
`cut_after=k`: power drops right after the k-th executed state-changing command (every later frame gets
no answer until `power_cycle()`).  `log` lists every executed WRITE as (page, bytes as sent, bytes before).
Answer variants for robustness runs: `mut` maps a command class name ("READ", "WRITE", "VERSION", "AUTH1",
"AUTH2", "PWD", "SIG", "SECTOR1") to a list of variants consumed one per occurrence (None = genuine answer):
"none" | ("trunc", n) | ("extend", bytes) | ("raw", bytes).
"""
from .auth_des import des_encrypt, des_decrypt, xor8

ACK = b"\x0a"
ULC_FACTORY_PAGES = b"BREAKMEIFYOUCAN!"      # pages 2Ch..2Fh at delivery; the DES key K1 || K2 is 49454D4B41455242 214E4143554F5946
ULC_FACTORY_KEY = ULC_FACTORY_PAGES[7::-1] + ULC_FACTORY_PAGES[15:7:-1]


def tdes2_enc(k1, k2, block):
    return des_encrypt(k1, des_decrypt(k2, des_encrypt(k1, block)))


def tdes2_dec(k1, k2, block):
    return des_decrypt(k1, des_encrypt(k2, des_decrypt(k1, block)))


def cbc_enc(k1, k2, iv, data):
    out, c = b"", iv
    for i in range(0, len(data), 8):
        c = tdes2_enc(k1, k2, xor8(data[i:i + 8], c))
        out += c
    return out


def cbc_dec(k1, k2, iv, data):
    out, c = b"", iv
    for i in range(0, len(data), 8):
        blk = data[i:i + 8]
        out += xor8(tdes2_dec(k1, k2, blk), c)
        c = blk
    return out


def rotl8(b):
    return bytes(b[1:]) + bytes(b[:1])


# name: dict(pages in sector 0, version answer or None, family, cfg page, dynamic lock page, lock granularity)
PRODUCTS = {
    "UL":       dict(pages=16, version=None, fam="ul", cfg=None, dlock=None, gran=0),
    "ULC":      dict(pages=48, version=None, fam="ulc", cfg=None, dlock=40, gran=4),
    "NTAG203":  dict(pages=42, version=None, fam="n203", cfg=None, dlock=40, gran=4),
    "NTAG210":  dict(pages=20, version="0004040101000b03", fam="ntag", cfg=16, dlock=None, gran=0),
    "NTAG212":  dict(pages=41, version="0004040101000e03", fam="ntag", cfg=37, dlock=36, gran=2),
    "NTAG213":  dict(pages=45, version="0004040201000f03", fam="ntag", cfg=41, dlock=40, gran=2),
    "NTAG215":  dict(pages=135, version="0004040201001103", fam="ntag", cfg=131, dlock=130, gran=16),
    "NTAG216":  dict(pages=231, version="0004040201001303", fam="ntag", cfg=227, dlock=226, gran=16),
    "MF0UL11":  dict(pages=20, version="0004030101000b03", fam="ev1", cfg=16, dlock=None, gran=0),
    "MF0ULH11": dict(pages=20, version="0004030201000b03", fam="ev1", cfg=16, dlock=None, gran=0),
    "MF0UL21":  dict(pages=41, version="0004030101000e03", fam="ev1", cfg=37, dlock=36, gran=2),
    "MF0ULH21": dict(pages=41, version="0004030201000e03", fam="ev1", cfg=37, dlock=36, gran=2),
    "NT3H1101": dict(pages=234, version="0004040502011303", fam="i2c", cfg=None, dlock=226, gran=16),
    "NT3H1201": dict(pages=256, version="0004040502011503", fam="i2c", cfg=None, dlock=256 + 224, gran=16),
}

# factory content of pages 4.. (TLV area) as delivered, per product (data sheets, "memory content at delivery")
FACTORY_TLV = {
    "NTAG203": bytes.fromhex("0103a010440300fe"), "NTAG210": bytes.fromhex("0300fe0000000000"),
    "NTAG212": bytes.fromhex("0103900a340300fe"), "NTAG213": bytes.fromhex("0103a00c340300fe"),
    "NTAG215": bytes.fromhex("0300fe0000000000"), "NTAG216": bytes.fromhex("0300fe0000000000"),
}
CC_SIZE = {"UL": 0x06, "ULC": 0x12, "NTAG203": 0x12, "NTAG210": 0x06, "NTAG212": 0x10, "NTAG213": 0x12,
           "NTAG215": 0x3E, "NTAG216": 0x6D, "MF0UL11": 0x06, "MF0ULH11": 0x06, "MF0UL21": 0x10, "MF0ULH21": 0x10,
           "NT3H1101": 0x6D, "NT3H1201": 0xEA}


class SimNxp(object):
    def __init__(self, product, uid=bytes.fromhex("04a1b2c3d4e5f6"), formatted=True, latch="activate", nak="timeout",
                 key=None, pwd=b"\xff\xff\xff\xff", pack=b"\x00\x00", auth0=None, prot=False, cfg_misc=None,
                 authlim=0, rnd=None, cut_after=None, mut=None, silent_from=None, user=None, gone_after=None):
        p = PRODUCTS[product]
        self.product, self.fam = product, p["fam"]
        self.npages0 = p["pages"]                      # pages in sector 0 (I2C 2k: 256)
        self.version = bytes.fromhex(p["version"]) if p["version"] else None
        self.cfg, self.dlock_page, self.gran = p["cfg"], p["dlock"], p["gran"]
        self.uid = bytes(uid)
        self.latch, self.nak_mode = latch, nak
        self.rnd = rnd
        # sector -> bytearray of 1024 bytes (256 pages); validity decided by _valid()
        self.sectors = {0: bytearray(1024)}
        if self.fam == "i2c":
            self.sectors[3] = bytearray(1024)
            if product == "NT3H1201":
                self.sectors[1] = bytearray(1024)
        m = self.sectors[0]
        bcc0 = 0x88 ^ uid[0] ^ uid[1] ^ uid[2]
        bcc1 = uid[3] ^ uid[4] ^ uid[5] ^ uid[6]
        m[0:9] = uid[0:3] + bytes([bcc0]) + uid[3:7] + bytes([bcc1])
        m[9] = 0x48
        if formatted:
            m[12:16] = bytes([0xE1, 0x10, CC_SIZE[product], 0x00])
            tlv = FACTORY_TLV.get(product, bytes.fromhex("0300fe0000000000"))
            m[16:16 + len(tlv)] = tlv
        if user:
            for page, data in user.items():
                m[4 * page:4 * page + len(data)] = data
        if self.fam == "ulc":
            m[4 * 42] = 0x30 if auth0 is None else auth0
            m[4 * 43] = 0x00 if prot else 0x01
            self.set_key_natural(key or ULC_FACTORY_KEY)
        if self.fam in ("ntag", "ev1"):
            c = 4 * self.cfg
            m[c:c + 4] = bytes(cfg_misc[0:3] if cfg_misc else (0x04, 0x00, 0x00)) + bytes([0xFF if auth0 is None else auth0])
            m[c + 4:c + 8] = bytes([(0x80 if prot else 0) | (cfg_misc[3] & 0x78 if cfg_misc else 0) | (authlim & 7)]) + \
                bytes(cfg_misc[4:7] if cfg_misc else (0x05, 0, 0))
            m[c + 8:c + 12] = pwd
            m[c + 12:c + 16] = bytes(pack) + b"\x00\x00"
        if self.fam == "i2c":
            cfgsec = 1 if product == "NT3H1201" else 0
            self.sectors[cfgsec][4 * 0xE8:4 * 0xE8 + 8] = bytes.fromhex("01000f4800480000")
            self.sectors[3][4 * 0xF8:4 * 0xF8 + 8] = bytes.fromhex("01000f4800480100")
        self.sig = bytes((7 * i + 3) & 0xFF for i in range(32))
        self.sector = 0
        self.sel2 = False
        self.mute = False
        self.authenticated = False
        self.fail_count = 0
        self.auth_state = None          # Ultralight C: (RndB, ek(RndB)) while waiting for part 2
        self.powered = True
        self.cut_after = cut_after
        self.log = []                   # executed WRITEs: (abs page, sent bytes, bytes before)
        self.cmds = []                  # (class name, abs page or None, answered?)
        self.ncmd = 0
        self.silent_from = silent_from
        self.gone_after = gone_after        # the tag leaves the field right after it answered its k-th command
        self.mut = {k: list(v) for k, v in (mut or {}).items()}
        self.applied = None
        self.nactivate = 0
        self._latch()

    # -- harness side --------------------------------------------------------------------------
    def set_key_natural(self, key16):
        """key16 = K1 || K2 in the order used on the DES (Key1 = bytes 0..7); pages 2Ch..2Fh hold each half reversed"""
        key16 = bytes(key16)
        self.sectors[0][4 * 44:4 * 48] = key16[7::-1] + key16[15:7:-1]

    def key_natural(self, raw=None):
        raw = bytes(self.sectors[0][4 * 44:4 * 48]) if raw is None else bytes(raw)
        return raw[7::-1] + raw[15:7:-1]

    def page(self, n, sector=0):
        return bytes(self.sectors[sector][4 * n:4 * n + 4])

    @property
    def stored(self):
        """the configuration as stored (not necessarily effective yet)"""
        m = self.sectors[0]
        if self.fam == "ulc":
            return dict(key=self.key_natural(), auth0=m[4 * 42], prot=not (m[4 * 43] & 1), cfglck=False)
        if self.fam in ("ntag", "ev1"):
            c = 4 * self.cfg
            return dict(key=bytes(m[c + 8:c + 14]), auth0=m[c + 3], prot=bool(m[c + 4] & 0x80), cfglck=bool(m[c + 4] & 0x40))
        return dict(key=b"", auth0=0xFF, prot=False, cfglck=False)

    def _latch(self):
        self.eff = self.stored

    def activate(self):
        """REQA / anticollision / SELECT of this UID"""
        if not self.powered:
            return False
        self.mute = False
        self.sector = 0
        self.sel2 = False
        self.authenticated = False
        self.auth_state = None
        self._latch()
        self.nactivate += 1
        return True

    def power_cycle(self):
        self.powered = True
        self.cut_after = None
        self.fail_count = self.fail_count       # AUTHLIM counter is non-volatile
        return self.activate()

    # -- lock bits --------------------------------------------------------------------------------
    def _locked(self, sector, page):
        """is this page made read-only by lock bits?"""
        m = self.sectors[0]
        if sector == 0 and 3 <= page <= 15:
            l0, l1 = m[10], m[11]
            return bool((l0 >> page) & 1) if page <= 7 else bool((l1 >> (page - 8)) & 1)
        ap = 256 * sector + page
        if self.dlock_page is None:
            return False
        ds, dp = divmod(self.dlock_page, 256)
        d = self.sectors[ds][4 * dp:4 * dp + 4]
        if self.fam == "ulc":
            if 16 <= ap <= 39:
                i = (ap - 16) // 4                    # lock byte 2 bits 1..3,5..7 ; approximated as one bit per 4 pages
                bits = d[0] >> 1 | (d[1] & 0x0F) << 7
                return bool(bits >> i & 1)
            if ap == 41:
                return bool(d[1] & 0x10)
            if ap == 42:
                return bool(d[1] & 0x20)
            if ap == 43:
                return bool(d[1] & 0x40)
            if 44 <= ap <= 47:
                return bool(d[1] & 0x80)
            return False
        if self.fam == "n203":
            if 16 <= ap <= 39:
                return bool(d[0] >> (1 + (ap - 16) // 4) & 1) if (ap - 16) // 4 < 7 else bool(d[0] & 0x80)
            if ap == 41:
                return bool(d[1] & 0x10)
            return False
        if 16 <= ap < self.dlock_page:
            i = (ap - 16) // self.gran
            bits = d[0] | d[1] << 8
            return bool(bits >> min(i, 15) & 1)
        return False

    def lock_state(self):
        m = self.sectors[0]
        out = dict(static=bytes(m[10:12]), cc=bytes(m[12:16]))
        if self.dlock_page is not None:
            ds, dp = divmod(self.dlock_page, 256)
            out["dynamic"] = bytes(self.sectors[ds][4 * dp:4 * dp + 3])
        return out

    # -- address space -----------------------------------------------------------------------------
    def _valid(self, sector, page):
        if sector not in self.sectors:
            return False
        if self.fam != "i2c":
            return sector == 0 and page < self.npages0
        if self.product == "NT3H1101":
            return (sector == 0 and (page <= 0xE2 or page in (0xE8, 0xE9))) or (sector == 3 and page in (0xF8, 0xF9))
        return (sector == 0) or (sector == 1 and (page <= 0xE0 or page in (0xE8, 0xE9))) or (sector == 3 and page in (0xF8, 0xF9))

    def _needs_auth(self, ap):
        return ap >= self.eff["auth0"] and not self.authenticated

    def _readable(self, sector, page):
        if not self._valid(sector, page):
            return False
        ap = 256 * sector + page
        if self.fam == "ulc" and ap >= 44:
            return False
        if self.fam in ("ulc", "ntag", "ev1") and self.eff["prot"] and self._needs_auth(ap):
            return False
        return True

    # -- frame level -----------------------------------------------------------------------------------
    def _nak(self, code=0x00):
        self.mute = True
        self.authenticated = False
        self.auth_state = None
        return None if self.nak_mode == "timeout" else bytes([code])

    def _vary(self, name, rsp):
        lst = self.mut.get(name)
        if not lst:
            return rsp
        v = lst.pop(0)
        if v is None or rsp is None:
            return rsp
        self.applied = v if isinstance(v, str) else v[0]
        if v in ("none", "xerr"):        # xerr: the frame is garbled (the fake clf raises TransmissionError)
            return None
        kind, arg = v
        if kind == "trunc":
            return rsp[:max(0, len(rsp) - arg)]
        if kind == "extend":
            return rsp + bytes(arg)
        if kind == "raw":
            return bytes(arg)
        return rsp

    def process(self, cmd):
        """-> response bytes or None (no answer)"""
        cmd = bytes(cmd)
        self.applied = None
        self.ncmd += 1
        if self.silent_from is not None and self.ncmd >= self.silent_from:
            self.powered = False
        if not self.powered or self.mute or not cmd:
            self.cmds.append(("mute" if self.powered else "dead", None, False))
            return None
        name, ap, rsp = self._handle(cmd)
        rsp = self._vary(name, rsp)
        if self.applied:
            name = "%s~%s" % (name, self.applied)
        self.cmds.append((name, ap, rsp is not None))
        if self.gone_after is not None and self.ncmd >= self.gone_after:
            self.powered = False
        return rsp

    def _handle(self, cmd):
        if self.sel2:
            self.sel2 = False
            if len(cmd) == 4:
                if cmd[0] in self.sectors:
                    self.sector = cmd[0]
                    return "SECTOR2", None, None             # passive ACK
                return "SECTOR2-nak", None, self._nak()
        c = cmd[0]
        if c == 0x30 and len(cmd) == 2:
            return self._read(cmd[1])
        if c == 0xA2 and len(cmd) == 6:
            return self._write(cmd[1], cmd[2:6])
        if c == 0x60 and len(cmd) == 1:
            if self.version is not None:
                return "VERSION", None, self.version
            return "VERSION-nak", None, self._nak()
        if c == 0xC2 and len(cmd) == 2 and cmd[1] == 0xFF:
            if self.fam == "i2c":
                self.sel2 = True
                return "SECTOR1", None, ACK
            return "SECTOR1-nak", None, self._nak()
        if c == 0x1A and len(cmd) == 2 and cmd[1] == 0x00 and self.fam == "ulc":
            return self._ulc_auth1()
        if c == 0xAF and len(cmd) == 17 and self.fam == "ulc":
            return self._ulc_auth2(cmd[1:17])
        if c == 0x1B and len(cmd) == 5 and self.fam in ("ntag", "ev1"):
            return self._pwd_auth(cmd[1:5])
        if c == 0x3C and len(cmd) == 2 and self.fam in ("ntag", "ev1"):
            return "SIG", None, self.sig
        return "unknown", None, self._nak()

    def _read(self, page):
        s = self.sector
        if not self._readable(s, page):
            return "READ-nak", 256 * s + page, self._nak()
        out = bytearray()
        p = page
        for _ in range(4):
            if not self._readable(s, p):
                p = 0
            d = bytearray(self.sectors[s][4 * p:4 * p + 4])
            if self.fam in ("ntag", "ev1") and s == 0:
                if p == self.cfg + 2:
                    d[:] = bytes(4)
                if p == self.cfg + 3:
                    d[0:2] = bytes(2)
            out += d
            p = (p + 1) % 256
        return "READ", 256 * s + page, bytes(out)

    def _write(self, page, data):
        s = self.sector
        ap = 256 * s + page
        if not self._valid(s, page) or (s == 0 and page < 2):
            return "WRITE-nak", ap, self._nak()
        if s == 3:
            return "WRITE-nak", ap, self._nak()
        if self.fam in ("ulc", "ntag", "ev1") and self._needs_auth(ap):
            return "WRITE-nak", ap, self._nak()
        if self.fam in ("ntag", "ev1") and page in (self.cfg, self.cfg + 1) and self.eff["cfglck"]:
            return "WRITE-nak", ap, self._nak()
        if self._locked(s, page):
            return "WRITE-nak", ap, self._nak()
        m = self.sectors[s]
        before = bytes(m[4 * page:4 * page + 4])
        if s == 0 and page == 2:
            # block-locking bits (lock0 bits 0..2) freeze the lock bits of their group
            l0 = m[10]
            new0, new1 = data[2], data[3]
            if l0 & 0x01:
                new0 &= 0xF7                    # lock bit of the OTP page frozen
            if l0 & 0x02:
                new0 &= 0x0F                    # lock bits of pages 4..7 (lock0) and 8, 9 (lock1) frozen
                new1 &= 0xFC
            if l0 & 0x04:
                new1 &= 0x03                    # lock bits of pages 10..15 frozen
            m[10] |= new0
            m[11] |= new1
        elif s == 0 and page == 3:
            for i in range(4):
                m[12 + i] |= data[i]
        elif self.dlock_page is not None and ap == self.dlock_page:
            for i in range(3):
                m[4 * page + i] |= data[i]
        else:
            m[4 * page:4 * page + 4] = data
        self.log.append((ap, bytes(data), before))
        if self.latch == "immediate":
            lck = self.eff["cfglck"]                # CFGLCK is taken over at power-up only
            self._latch()
            self.eff["cfglck"] = lck
        if self.cut_after is not None and len(self.log) >= self.cut_after:
            self.powered = False
        return "WRITE", ap, ACK

    # -- Ultralight C 3DES authentication -----------------------------------------------------------------
    def _keys(self):
        k = self.eff["key"]
        return k[0:8], k[8:16]

    def _ulc_auth1(self):
        rnd = self.rnd
        rndb = bytes(rnd.randrange(256) for _ in range(8)) if rnd else bytes(range(1, 9))
        k1, k2 = self._keys()
        ek = cbc_enc(k1, k2, bytes(8), rndb)
        self.auth_state = (rndb, ek)
        self.authenticated = False
        return "AUTH1", None, b"\xaf" + ek

    def _ulc_auth2(self, data):
        if self.auth_state is None:
            return "AUTH2-nak", None, self._nak()
        rndb, ek = self.auth_state
        self.auth_state = None
        k1, k2 = self._keys()
        plain = cbc_dec(k1, k2, ek, data)
        rnda, rndb2 = plain[0:8], plain[8:16]
        if rndb2 != rotl8(rndb):
            return "AUTH2-nak", None, self._nak()
        self.authenticated = True
        return "AUTH2", None, b"\x00" + cbc_enc(k1, k2, data[8:16], rotl8(rnda))

    # -- NTAG21x / EV1 password ------------------------------------------------------------------------------
    def _pwd_auth(self, pwd):
        lim = self.sectors[0][4 * self.cfg + 4] & 7
        if lim and self.fail_count >= lim:
            return "PWD-nak", None, self._nak(0x04)
        if bytes(pwd) == self.eff["key"][0:4]:
            self.authenticated = True
            self.fail_count = 0
            return "PWD", None, self.eff["key"][4:6]
        self.fail_count += 1
        return "PWD-nak", None, self._nak(0x04)
