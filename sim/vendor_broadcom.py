"""Simulated Broadcom (Innovision) Topaz (BCM20203T96, HR0 11h) and Topaz-512 (BCM20203T512, HR0 12h).
No nfcpy code inside.

From the Topaz data sheets / NFC Forum Type 1 Tag operation: RID (78h), RALL (00h), READ (01h), WRITE-E (53h),
WRITE-NE (1Ah) address one byte of blocks 0..Eh; the dynamic model adds RSEG (10h), READ8 (02h), WRITE-E8
(54h), WRITE-NE8 (1Bh).  Block 0 (UID) and block Dh are read-only; block Eh holds LOCK0/LOCK1 (bit i of
LOCK0 locks block i, bit i of LOCK1 block 8+i) and six OTP bytes; Topaz-512: block Fh (bytes 78h..7Fh) is
lock/reserved, the bits of bytes 7Ah..7Fh lock blocks 10h..3Fh.  Lock, OTP and block Fh bytes only ever gain
bits (a WRITE-E behaves as WRITE-NE there).  A write to a locked block changes nothing; the tag answers
with the unchanged content (there is no NAK in the Topaz protocol).  Commands with a wrong UID echo or a
wrong length get no answer.
`cut_after=k`: power drops after the k-th executed write.  `log`: (unit, data as sent, content before, erase).
`mut`: command class name -> list of answer variants ("none" | ("trunc", n) | ("extend", b) | ("raw", b)).
"""


class SimTopaz(object):
    def __init__(self, size=120, uid=bytes.fromhex("01020304050607"), image=None, cut_after=None, mut=None,
                 silent_from=None, hr1=None):
        assert size == 120 or size % 128 == 0
        self.dynamic = size > 120
        self.hr = bytes([0x12 if self.dynamic else 0x11, (0x4C if self.dynamic else 0x48) if hr1 is None else hr1])
        self.mem = bytearray(size)
        self.mem[0:7] = uid
        if image:
            for a, v in image.items():
                self.mem[a:a + len(v)] = v
        self.uid4 = bytes(self.mem[0:4])
        self.readonly = set(range(0, 8)) | set(range(104, 112))
        self.oneway = set(range(112, 120)) | (set(range(120, 128)) if self.dynamic else set())
        self.cut_after = cut_after
        self.powered = True
        self.log = []
        self.cmds = []
        self.ncmd = 0
        self.silent_from = silent_from
        self.mut = {k: list(v) for k, v in (mut or {}).items()}
        self.applied = None

    def rid_res(self):
        return self.hr + self.uid4

    def activate(self):
        return self.powered

    def power_cycle(self):
        self.powered = True
        self.cut_after = None

    def block_locked(self, b):
        if b < 8:
            return bool(self.mem[112] >> b & 1)
        if b < 15:
            return bool(self.mem[113] >> (b - 8) & 1)
        if b == 15:
            return False                  # block Fh holds lock / reserved bytes itself (OR-written), it has no lock bit
        if self.dynamic:
            k = b - 16
            return bool(self.mem[122 + k // 8] >> (k % 8) & 1)
        return False

    def _store(self, a, v, erase):
        if a in self.readonly or self.block_locked(a // 8):
            return
        if a in self.oneway or not erase:
            self.mem[a] |= v
        else:
            self.mem[a] = v

    def _vary(self, name, rsp):
        lst = self.mut.get(name)
        if not lst or rsp is None:
            return rsp
        v = lst.pop(0)
        if v is None:
            return rsp
        self.applied = v if isinstance(v, str) else v[0]
        if v in ("none", "xerr"):        # xerr: the frame is garbled (the fake clf raises TransmissionError)
            return None
        kind, arg = v
        if kind == "trunc":
            return rsp[:max(0, len(rsp) - arg)]
        if kind == "extend":
            return rsp + bytes(arg)
        if kind == "raw":
            return bytes(arg)
        return rsp

    def process(self, cmd):
        cmd = bytes(cmd)
        self.ncmd += 1
        self.applied = None
        if self.silent_from is not None and self.ncmd >= self.silent_from:
            self.powered = False
        if not self.powered or not cmd:
            self.cmds.append(("dead", None, False))
            return None
        name, unit, rsp = self._handle(cmd)
        rsp = self._vary(name, rsp)
        if self.applied:
            name = "%s~%s" % (name, self.applied)
        self.cmds.append((name, unit, rsp is not None))
        return rsp

    def _wrote(self, unit, data, before, erase):
        self.log.append((unit, bytes(data), bytes(before), erase))
        if self.cut_after is not None and len(self.log) >= self.cut_after:
            self.powered = False

    def _handle(self, cmd):
        c = cmd[0]
        if c == 0x78 and len(cmd) == 7:
            return "RID", None, self.hr + self.uid4
        if len(cmd) not in (7, 14) or cmd[-4:] != self.uid4:
            return "bad", None, None
        if c == 0x00 and len(cmd) == 7:
            return "RALL", ("rall",), self.hr + bytes(self.mem[0:120])
        if c == 0x01 and len(cmd) == 7:
            a = cmd[1] & 0x7F
            if a >= min(len(self.mem), 128):
                return "READ-bad", None, None
            return "READ", ("byte", a), bytes([a, self.mem[a]])
        if c in (0x53, 0x1A) and len(cmd) == 7:
            a = cmd[1] & 0x7F
            if a >= min(len(self.mem), 128):
                return "WRITE-bad", None, None
            before = self.mem[a:a + 1]
            self._store(a, cmd[2], c == 0x53)
            self._wrote(a, cmd[2:3], before, c == 0x53)
            return "WRITE", ("wbyte", a), bytes([a, self.mem[a]])
        if not self.dynamic:
            return "unknown", None, None
        if c == 0x10 and len(cmd) == 14:
            s = cmd[1] >> 4
            if 128 * s + 128 > len(self.mem):
                return "RSEG-bad", ("seg", s), None
            return "RSEG", ("seg", s), bytes([cmd[1]]) + bytes(self.mem[128 * s:128 * s + 128])
        if c == 0x02 and len(cmd) == 14:
            b = cmd[1]
            if 8 * b + 8 > len(self.mem):
                return "READ8-bad", ("blk", b), None
            return "READ8", ("blk", b), bytes([b]) + bytes(self.mem[8 * b:8 * b + 8])
        if c in (0x54, 0x1B) and len(cmd) == 14:
            b = cmd[1]
            if 8 * b + 8 > len(self.mem):
                return "WRITE8-bad", ("wblk", b), None
            before = self.mem[8 * b:8 * b + 8]
            for i in range(8):
                self._store(8 * b + i, cmd[2 + i], c == 0x54)
            self._wrote(("blk", b), cmd[2:10], before, c == 0x54)
            return "WRITE8", ("wblk", b), bytes([b]) + bytes(self.mem[8 * b:8 * b + 8])
        return "unknown", None, None
