"""Minimal simulated tags for C16 (no nfcpy code inside).  Each has process(cmd) -> response bytes or
None (the tag stays mute -> the reader sees a time-out) and counts the state changing commands it
executed (`writes`).  SimT2.passive is True when the command just processed was SECTOR SELECT packet 2
(answered by silence = passive ACK)."""


class SimT1(object):
    """Static Type 1 Tag (Topaz-like, 120 byte): RID, RALL, READ, WRITE-E, WRITE-NE."""

    def __init__(self, hr=b"\x11\x48", uid=b"\x01\x02\x03\x04", ndef=b"\xD1\x01\x03\x54\x02\x65\x6E"):
        self.hr, self.uid = bytes(hr), bytes(uid)
        m = bytearray(120)
        m[0:4] = self.uid
        m[4:7] = b"\x05\x06\x07"
        m[8:12] = b"\xE1\x10\x0E\x00"                       # CC: NDEF magic, v1.0, 120 byte, read/write
        tlv = bytes([0x03, len(ndef)]) + bytes(ndef) + b"\xFE"
        m[12:12 + len(tlv)] = tlv
        self.mem = m
        self.writes = 0

    def rid_res(self):
        return self.hr + self.uid

    def process(self, cmd):
        cmd = bytes(cmd)
        if len(cmd) != 7:
            return None
        code, addr, dat, uid = cmd[0], cmd[1], cmd[2], cmd[3:7]
        if code == 0x78:
            return self.hr + self.uid
        if uid != self.uid:
            return None
        if code == 0x00:
            return self.hr + bytes(self.mem)
        if addr > 0x7F or addr >= len(self.mem):
            return None
        if code == 0x01:
            return bytes([addr, self.mem[addr]])
        if code == 0x53:                                     # WRITE-E
            self.writes += 1
            if not (0x68 <= addr < 0x70):
                self.mem[addr] = dat
            return bytes([addr, self.mem[addr]])
        if code == 0x1A:                                     # WRITE-NE
            self.writes += 1
            self.mem[addr] |= dat
            return bytes([addr, self.mem[addr]])
        return None


class SimT2(object):
    """Type 2 Tag: READ, WRITE, SECTOR SELECT; `size` bytes of memory (sector = 1024 bytes)."""

    def __init__(self, size=64, ndef=b"\xD1\x01\x03\x54\x02\x65\x6E", uid=b"\x08\x01\x02\x03\x04\x05\x06",
                 version=None, auth=False):
        """version: answer to GET_VERSION (60h) or None (command unknown: the tag stays mute);
        auth: the tag knows AUTHENTICATE (1Ah 00h) and answers AFh + 8 byte"""
        self.version, self.auth = version, auth
        m = bytearray(size)
        m[0:3] = uid[0:3]
        m[4:8] = uid[3:7]
        m[12:16] = bytes([0xE1, 0x10, (size - 16) // 8 if size <= 16 + 255 * 8 else 255, 0x00])
        tlv = bytes([0x03, len(ndef)]) + bytes(ndef) + b"\xFE"
        m[16:16 + len(tlv)] = tlv
        self.mem = m
        self.uid = bytes(uid)
        self.sector = 0
        self.pending = False          # SECTOR SELECT packet 1 was acknowledged
        self.passive = False
        self.writes = 0

    def expects_packet2(self):
        return self.pending

    def process(self, cmd):
        cmd = bytes(cmd)
        self.passive = False
        if self.pending:
            self.pending = False
            if len(cmd) == 4:
                if cmd[0] * 1024 < len(self.mem):
                    self.sector = cmd[0]
                    self.writes += 1
                    self.passive = True
                    return None                              # passive ACK
                return b"\x00"                               # NAK
            return None
        base = self.sector * 1024
        if len(cmd) == 2 and cmd[0] == 0x30:
            a = base + cmd[1] * 4
            if a >= len(self.mem) or cmd[1] * 4 >= 1024:
                return b"\x00"
            end = min(len(self.mem), base + 1024)
            out = bytearray()
            for i in range(16):                              # roll over to the first page
                out.append(self.mem[a + i] if a + i < end else self.mem[base + (a + i - end)])
            return bytes(out)
        if len(cmd) == 6 and cmd[0] == 0xA2:
            a = base + cmd[1] * 4
            if a >= len(self.mem) or cmd[1] < 2:
                return b"\x00"
            self.writes += 1
            if cmd[1] in (2, 3):                             # lock / OTP / CC: one-time programmable (OR)
                for i in range(4):
                    self.mem[a + i] |= cmd[2 + i]
            else:
                self.mem[a:a + 4] = cmd[2:6]
            return b"\x0A"
        if cmd == b"\x60" and self.version is not None:
            return bytes(self.version)
        if cmd == b"\x1A\x00" and self.auth:
            return b"\xAF" + bytes(range(8))
        if cmd == b"\xC2\xFF":
            if len(self.mem) > 1024:
                self.pending = True
                return b"\x0A"
            return b"\x00"
        return None


class SimT3(object):
    """NFC Forum Type 3 Tag: POLLING, READ/WRITE WITHOUT ENCRYPTION on services 000Bh / 0009h."""

    def __init__(self, nblocks=13, nbr=4, nbw=1, ndef=b"\xD1\x01\x03\x54\x02\x65\x6E",
                 idm=b"\x02\xFE\x11\x22\x33\x44\x55\x66", pmm=b"\x03\x77\x4B\x02\x4F\x49\x93\xFF"):
        self.idm, self.pmm = bytes(idm), bytes(pmm)
        self.nbr, self.nbw = nbr, nbw
        self.blocks = [bytearray(16) for _ in range(nblocks + 1)]
        attr = bytearray(16)
        attr[0], attr[1], attr[2] = 0x10, nbr, nbw
        attr[3:5] = nblocks.to_bytes(2, "big")
        attr[9], attr[10] = 0x00, 0x01
        attr[11:14] = len(ndef).to_bytes(3, "big")
        attr[14:16] = sum(attr[0:14]).to_bytes(2, "big")
        self.blocks[0] = attr
        data = bytes(ndef) + bytes(-len(ndef) % 16)
        for i in range(len(data) // 16):
            self.blocks[1 + i] = bytearray(data[16 * i:16 * i + 16])
        self.writes = 0

    def sensf_res(self):
        return b"\x01" + self.idm + self.pmm + b"\x12\xFC"

    @staticmethod
    def _blocklist(b, n):
        out, i = [], 0
        for _ in range(n):
            if i >= len(b):
                return None, i
            if b[i] & 0x80:
                out.append(b[i + 1])
                i += 2
            else:
                out.append(b[i + 1] | b[i + 2] << 8)
                i += 3
        return out, i

    def process(self, cmd):
        cmd = bytes(cmd)
        if len(cmd) < 2 or cmd[0] != len(cmd):
            return None
        code = cmd[1]

        def rsp(body):
            return bytes([len(body) + 2, code + 1]) + body
        if code == 0x00 and len(cmd) == 6:
            sc = cmd[2:4]
            if sc not in (b"\x12\xFC", b"\xFF\xFF", b"\x12\xFF", b"\xFF\xFC"):
                return None
            body = self.idm + self.pmm
            if cmd[4] == 1:
                body += b"\x12\xFC"
            return rsp(body)
        if cmd[2:10] != self.idm:
            return None
        if code in (0x06, 0x08):
            ns = cmd[10]
            p = 11 + 2 * ns
            services = [cmd[11 + 2 * i:13 + 2 * i] for i in range(ns)]
            nb = cmd[p]
            blist, used = self._blocklist(cmd[p + 1:], nb)
            if blist is None or ns != 1:
                return rsp(self.idm + b"\xFF\xA1")
            want = b"\x0B\x00" if code == 0x06 else b"\x09\x00"
            if services[0] != want:
                return rsp(self.idm + b"\x01\xA6")
            if nb == 0 or nb > (self.nbr if code == 0x06 else self.nbw):
                return rsp(self.idm + b"\xFF\xA2")
            for j, b in enumerate(blist):
                if b >= len(self.blocks):
                    return rsp(self.idm + bytes([1 << (j % 8), 0xA8]))
            if code == 0x06:
                return rsp(self.idm + b"\x00\x00" + bytes([nb]) + b"".join(bytes(self.blocks[b]) for b in blist))
            data = cmd[p + 1 + used:]
            if len(data) != 16 * nb:
                return rsp(self.idm + b"\xFF\xA9")
            self.writes += 1
            for j, b in enumerate(blist):
                self.blocks[b] = bytearray(data[16 * j:16 * j + 16])
            return rsp(self.idm + b"\x00\x00")
        return None


class NdefApplet(object):
    """Type 4 Tag NDEF application (mapping version 2.0) for sim.picc.SimPicc: SELECT, READ/UPDATE BINARY."""

    def __init__(self, ndef=b"\xD1\x01\x03\x54\x02\x65\x6E", size=128, mle=0x3B, mlc=0x34):
        self.cc = bytes([0x00, 0x0F, 0x20]) + mle.to_bytes(2, "big") + mlc.to_bytes(2, "big") + \
            bytes([0x04, 0x06, 0xE1, 0x04]) + size.to_bytes(2, "big") + b"\x00\x00"
        self.file = bytearray(size)
        self.file[0:2] = len(ndef).to_bytes(2, "big")
        self.file[2:2 + len(ndef)] = ndef
        self.app = False
        self.sel = None
        self.writes = 0
        self.count = 0

    def __call__(self, cmd):
        self.count += 1
        return self.count, self.apdu(bytes(cmd))

    def apdu(self, c):
        if len(c) < 4:
            return b"\x67\x00"
        cla, ins, p1, p2 = c[0:4]
        if ins == 0xA4 and p1 == 0x04:
            self.app = c[5:5 + c[4]] == bytes.fromhex("D2760000850101")
            self.sel = None
            return b"\x90\x00" if self.app else b"\x6A\x82"
        if not self.app:
            return b"\x69\x85"
        if ins == 0xA4 and p1 == 0x00:
            fid = c[5:7]
            self.sel = {b"\xE1\x03": "cc", b"\xE1\x04": "ndef"}.get(fid)
            return b"\x90\x00" if self.sel else b"\x6A\x82"
        f = self.cc if self.sel == "cc" else (self.file if self.sel == "ndef" else None)
        if f is None:
            return b"\x69\x86"
        off = p1 << 8 | p2
        if ins == 0xB0:
            le = c[4] if len(c) > 4 else 0
            if off > len(f):
                return b"\x6B\x00"
            return bytes(f[off:off + (le or 256)]) + b"\x90\x00"
        if ins == 0xD6 and self.sel == "ndef":
            lc = c[4]
            data = c[5:5 + lc]
            if off + lc > len(f):
                return b"\x6A\x87"
            self.writes += 1
            f[off:off + lc] = data
            return b"\x90\x00"
        return b"\x6D\x00"
