"""Simulated PN53x-family chipsets behind simulated transports (no nfcpy code in here).

SimPn53x        the chip: parses host frames (normal / extended information frames, ACK), answers every
                command code with a well-formed default, keeps CIU registers and a small FIFO model;
                personalities pn531 / pn532 / pn533 / rcs956 (differences follow the data sheets as far as
                the repository's own driver transcripts show them: Diagnose echo, firmware version length,
                status byte of Read/WriteRegister).
FrameTransport  frame-level transport (what nfc.clf.transport.USB delivers: one bulk transfer = one frame)
Acr122Transport the ACR122U: CCID PC_to_RDR_Escape / XfrBlock around pseudo APDUs, PN532 inside
ArygonTransport the Arygon reader: ASCII MCU commands on .tty, TAMA frames prefixed with '2'

Fault script (one fault per armed exchange):  Fault(at, kind, arg) applies to the `at`-th host *command*
(1-based, counted from arm()) -- see FAULT_KINDS.  Every command is logged by name in `chip.log`.
"""
import errno
import os
from collections import deque

SOF = b"\x00\x00\xff"
ACK = b"\x00\x00\xff\x00\xff\x00"
NAK = b"\x00\x00\xff\xff\x00\x00"
ERR = b"\x00\x00\xff\x01\xff\x7f\x81\x00"

FAULT_KINDS = (
    "status",      # arg s: first byte of the response payload := s (the status byte)
    "regval",      # arg v: first register value of a ReadRegister response := v
    "errframe",    # ACK, then the syntax error frame
    "timeout",     # ACK, then nothing
    "noack",       # nothing at all
    "badack",      # garbled acknowledge (NAK), then nothing
    "io_read",     # arg errno: ACK, then the read of the response raises IOError(errno)
    "io_ack",      # arg errno: the read of the ACK (first read after the command) raises IOError(errno)
    "io_write",    # arg errno: the write of the command raises IOError(errno)
    "short",       # arg n: response truncated to its first n bytes (n < 0: drop -n bytes from the end)
    "badsum",      # data checksum off by one
    "wrongcode",   # response code of a different command
    "raw",         # arg bytes: ACK, then exactly these bytes as the response frame
    "cutbody",     # arg k: a WELL-FORMED frame (length fields and checksums recomputed) whose payload -- TFI, response
                   # code, data -- is cut to its first min(k, len-1) bytes: the answer was truncated inside the chip /
                   # between chip and reader, the framing layer can not notice
    "cutbodyx",    # the same in an extended information frame
)


def cut_body(body, k):
    """payload cut to k bytes, but always by at least one byte"""
    body = bytes(body)
    return body[:max(0, min(k, len(body) - 1))]


class SimHang(BaseException):
    """A read without timeout on a link that will never deliver: the real process would block forever."""


class Fault(object):
    def __init__(self, at, kind, arg=0):
        assert kind in FAULT_KINDS, kind
        self.at, self.kind, self.arg = at, kind, arg

    def __repr__(self):
        return "Fault(at=%d,%s,%r)" % (self.at, self.kind, self.arg)


class VClock(object):
    """Virtual clock: replaces the `time` module attribute of the driver modules."""

    def __init__(self):
        self.now = 1000.0

    def time(self):
        self.now += 1e-6            # every look at the clock costs a microsecond: loops terminate
        return self.now

    def sleep(self, s):
        self.now += max(0.0, s)

    def advance(self, s):
        self.now += max(0.0, s)


def std_frame(payload):
    n = len(payload)
    assert n <= 255
    return SOF + bytes([n, (256 - n) & 255]) + bytes(payload) + bytes([(256 - sum(payload)) & 255, 0])


def ext_frame(payload):
    n = len(payload)
    hi, lo = n >> 8, n & 255
    return (SOF + b"\xff\xff" + bytes([hi, lo, (256 - hi - lo) & 255]) + bytes(payload) +
            bytes([(256 - sum(payload)) & 255, 0]))


def info_frame(payload, force_ext=False):
    return ext_frame(payload) if (len(payload) > 255 or force_ext) else std_frame(payload)


def parse_host_frames(buf):
    """Split what the host wrote into frames.  Returns list of ("ack"|"nak"|"cmd"|"bad", payload)."""
    out = []
    i, n = 0, len(buf)
    while i < n:
        j = buf.find(SOF, i)
        if j < 0:
            if any(buf[i:]):
                out.append(("bad", bytes(buf[i:])))
            break
        if any(buf[i:j]):
            out.append(("bad", bytes(buf[i:j])))
        i = j
        if buf[i:i + 6] == ACK:
            out.append(("ack", b""))
            i += 6
            continue
        if buf[i:i + 6] == NAK:
            out.append(("nak", b""))
            i += 6
            continue
        if buf[i + 3:i + 5] == b"\xff\xff":
            if i + 8 > n or (buf[i + 5] + buf[i + 6] + buf[i + 7]) & 255:
                out.append(("bad", bytes(buf[i:])))
                break
            ln = buf[i + 5] << 8 | buf[i + 6]
            body = buf[i + 8:i + 8 + ln + 2]
            i += 8 + ln + 2
        else:
            if i + 5 > n or (buf[i + 3] + buf[i + 4]) & 255:
                out.append(("bad", bytes(buf[i:])))
                break
            ln = buf[i + 3]
            body = buf[i + 5:i + 5 + ln + 2]
            i += 5 + ln + 2
        if len(body) != ln + 2 or sum(body[:-1]) & 255 or body[-1] != 0 or ln < 2:
            out.append(("bad", bytes(body)))
            continue
        out.append(("cmd", bytes(body[:-2])))
    return out


CMDNAME = {
    0x00: "Diagnose", 0x02: "GetFirmwareVersion", 0x04: "GetGeneralStatus", 0x06: "ReadRegister",
    0x08: "WriteRegister", 0x0C: "ReadGPIO", 0x0E: "WriteGPIO", 0x10: "SetSerialBaudrate",
    0x12: "SetParameters", 0x14: "SAMConfiguration", 0x16: "PowerDown", 0x18: "ResetMode",
    0x1C: "ControlLED", 0x32: "RFConfiguration", 0x58: "RFRegulationTest", 0x56: "InJumpForDEP",
    0x46: "InJumpForPSL", 0x4A: "InListPassiveTarget", 0x50: "InATR", 0x4E: "InPSL",
    0x40: "InDataExchange", 0x42: "InCommunicateThru", 0x44: "InDeselect", 0x52: "InRelease",
    0x54: "InSelect", 0x60: "InAutoPoll", 0x8C: "TgInitAsTarget", 0x92: "TgSetGeneralBytes",
    0x86: "TgGetData", 0x8E: "TgSetData", 0x94: "TgSetMetaData", 0x88: "TgGetInitiatorCommand",
    0x90: "TgResponseToInitiator", 0x8A: "TgGetTargetStatus", 0xA0: "CommunicateThruEX",
    0x38: "InQuartetByteExchange", 0x48: "InActivateDeactivatePaypass", 0x96: "TgSetDataSecure",
    0x98: "TgSetMetaDataSecure",
}

def cmd_name(code, data):
    """Name of a host command; register reads are named after the first register they address."""
    if code == 0x06 and len(data) >= 2:
        a = data[0] << 8 | data[1]
        return {0x6339: "ReadFIFOData", 0x633A: "ReadFIFOLevel", 0x6334: "ReadIRq"}.get(a, "ReadRegister")
    return CMDNAME.get(code, "%02X" % code)


def _crc_a(data):
    from .chip_crc import crc_a_bytes
    return crc_a_bytes(data)


REG_TXMODE, REG_RXMODE, REG_TXAUTO = 0x6302, 0x6303, 0x6305
# CIU_TxMode / CIU_RxMode (PN53x user manuals, CIU register description): bits 6..4 Tx/RxSpeed, bits 1..0 Tx/RxFraming
CIU_SPEED = {106: 0, 212: 1, 424: 2, 848: 3}
CIU_FRAMING = {"A": 0, "active": 1, "F": 2, "B": 3}
REG_FIFODATA, REG_FIFOLEVEL, REG_COMMIRQ, REG_DIVIRQ, REG_COMMAND = 0x6339, 0x633A, 0x6334, 0x6335, 0x6331

FIRMWARE = {"pn531": b"\x03\x04", "pn532": b"\x32\x01\x06\x07", "pn533": b"\x33\x02\x07\x07",
            "rcs956": b"\x33\x01\x30\x07"}


def damage(frame, f):
    """Link-level damage of one frame: short (arg n) / badsum."""
    if f.kind == "short":
        return frame[:f.arg] if f.arg >= 0 else frame[:len(frame) + f.arg]
    if f.kind == "badsum":
        b = bytearray(frame)
        b[-2] = (b[-2] + 1) & 255
        return bytes(b)
    raise AssertionError(f.kind)


class SimPn53x(object):
    def __init__(self, personality="pn532"):
        assert personality in FIRMWARE
        self.p = personality
        self.regs = {}
        self.fifo = bytearray()
        self.commirq = 0
        self.divirq = 0
        self.rf_rsp = b""          # what the remote device answers (In*/TgGetInitiatorCommand/TgGetData)
        self.rf_in = b""           # what the CIU receives into its FIFO after a receive/transceive/flush
        self.rf_in_irq = 0x20      # CommIRq bits raised with it
        self.log = []              # names of host commands since arm()
        self.frames = []           # every information frame payload written by the host since arm()
        self.fault = None
        self.ncmd = 0
        self.force_ext = False
        self._rx_pending = False
        # optional Type A card in the field (C14, CRC ownership): tag = dict(sens_res, sel_res, uid);
        # air = its answer on the air INCLUDING CRC_A.  With `air` set, InCommunicateThru honours RxCRCEn
        # (CIU_RxMode bit 7): enabled -> the CIU verifies and strips CRC_A (status 02h if wrong);
        # disabled -> the raw frame, CRC bytes included, good or bad, goes to the host.
        self.tag = None
        self.air = None
        self.chip_checked_crc = 0
        # optional remote device in the field that talks ONE bit rate / technology (C13, target variants):
        # card = dict(send="848B", recv="848B", active=False).  InCommunicateThru sends with the CIU as it is
        # configured: a device that does not understand the frame stays silent and the command times out (01h).
        self.card = None

    def discovered(self, brty, active=False):
        """CIU state as the firmware leaves it after it found / activated a target of that bit rate and technology"""
        sp = CIU_SPEED[int(brty[:-1])] << 4
        fr = CIU_FRAMING["active" if active else brty[-1]]
        self.regs[REG_TXMODE] = (self.regs.get(REG_TXMODE, 0) & 0x8C) | sp | fr
        self.regs[REG_RXMODE] = (self.regs.get(REG_RXMODE, 0) & 0x8C) | sp | fr
        self.regs[REG_TXAUTO] = (self.regs.get(REG_TXAUTO, 0) & 0xBF) | (0x40 if brty[-1] == "A" else 0)

    def card_hears(self):
        """is the CIU set up for the bit rate, framing and modulation the remote device in the field talks?"""
        c = self.card
        tx, rx, txa = (self.regs.get(r, 0) for r in (REG_TXMODE, REG_RXMODE, REG_TXAUTO))
        ftx = CIU_FRAMING["active" if c["active"] else c["send"][-1]]
        frx = CIU_FRAMING["active" if c["active"] else c["recv"][-1]]
        return ((tx >> 4) & 7 == CIU_SPEED[int(c["send"][:-1])] and (rx >> 4) & 7 == CIU_SPEED[int(c["recv"][:-1])]
                and tx & 3 == ftx and rx & 3 == frx
                and bool(txa & 0x40) == (c["send"][-1] == "A"))     # Force100ASK: Type A modulation only

    # ---- scripting -------------------------------------------------------------------------
    def arm(self, fault=None):
        self.fault = fault
        self.ncmd = 0
        self.log = []
        self.frames = []

    # ---- host side -------------------------------------------------------------------------
    def host_write(self, data):
        """The host wrote `data`; returns the list of frames the chip sends back, where an element may
        also be ("raise", errno) for an I/O error raised by the read that would have returned it."""
        out = []
        for kind, payload in parse_host_frames(bytes(data)):
            if kind == "ack":
                continue                       # abort of the current command: nothing is sent back
            if kind == "nak":
                continue
            if kind == "bad" or payload[0] != 0xD4:
                out += [ACK, ERR] if kind == "cmd" else []
                continue
            out += self._command(payload[1], payload[2:])
        return out

    def execute(self, code, data):
        """Stage 1: run the command.  Returns (fault or None, response payload or None)."""
        self.ncmd += 1
        self.log.append(cmd_name(code, data))
        self.frames.append(bytes([0xD4, code]) + bytes(data))
        f = self.fault if (self.fault is not None and self.fault.at == self.ncmd) else None
        rsp = self._default(code, data)
        if f is not None and f.kind == "status":
            rsp = bytes([f.arg]) + bytes((rsp or b"")[1:])
        if f is not None and f.kind == "regval":         # first register value of a ReadRegister answer
            i = 1 if self.p == "pn533" else 0
            rsp = bytes(rsp[:i]) + bytes([f.arg]) + bytes(rsp[i + 1:])
        return f, rsp

    def _command(self, code, data):
        """Stage 2: what appears on the chip's own host link."""
        f, rsp = self.execute(code, data)
        if f is None or f.kind in ("status", "regval"):
            return [ACK] + ([self._frame(code, rsp)] if rsp is not None else [])
        k = f.kind
        if k == "noack":
            return []
        if k == "badack":
            return [NAK]
        if k == "timeout":
            return [ACK]
        if k == "io_read":
            return [ACK, ("raise", f.arg)]
        if k == "io_ack":
            return [("raise", f.arg)]
        if k == "errframe":
            return [ACK, ERR]
        if k == "raw":
            return [ACK, bytes(f.arg)]
        if k in ("cutbody", "cutbodyx"):
            if rsp is None:
                return [ACK]
            body = cut_body(bytes([0xD5, (code + 1) & 255]) + bytes(rsp), f.arg)
            return [ACK, info_frame(body, k == "cutbodyx" or self.force_ext)]
        frame = self._frame(code, rsp or b"")
        if k == "wrongcode":
            return [ACK, self._frame((code + 2) & 0xFE, rsp or b"")]
        return [ACK, damage(frame, f)]

    def _frame(self, code, rsp):
        return info_frame(bytes([0xD5, (code + 1) & 255]) + bytes(rsp), self.force_ext)

    # ---- command defaults -------------------------------------------------------------------
    def _default(self, code, data):
        p = self.p
        if code == 0x00:
            if data[:1] == b"\x00":
                return bytes(data[1:]) if p == "rcs956" else bytes(data)
            return b"\x00"
        if code == 0x02:
            return FIRMWARE[p]
        if code == 0x04:
            return b"\x00\x00\x00"
        if code == 0x06:
            vals = bytes(self._read_reg(data[i] << 8 | data[i + 1]) for i in range(0, len(data) - 1, 2))
            return (b"\x00" + vals) if p == "pn533" else vals
        if code == 0x08:
            self._rx_pending = False
            for i in range(0, len(data) - 2, 3):
                self._write_reg(data[i] << 8 | data[i + 1], data[i + 2])
            if self._rx_pending:                         # after the whole command: next frame from the field
                self.fifo = bytearray(self.rf_in)
                self.commirq |= self.rf_in_irq if self.rf_in else 0
            return b"\x00"
        if code in (0x0C,):
            return b"\x00\x00\x00"
        if code in (0x0E, 0x10, 0x12, 0x14, 0x18, 0x1C, 0x32):
            return b""
        if code == 0x16:
            return b"\x00"
        if code == 0x58:
            return None
        if code == 0x4A:
            if self.tag is not None and len(data) >= 2 and data[1] == 0:      # 106 kbps Type A
                t = self.tag
                self.regs[REG_TXMODE] = 0x80                                  # firmware: TxCRCEn / RxCRCEn on
                self.regs[REG_RXMODE] = 0x80
                return (b"\x01\x01" + bytes(t["sens_res"]) + bytes(t["sel_res"]) +
                        bytes([len(t["uid"])]) + bytes(t["uid"]))
            return b"\x00"
        if code == 0x42 and self.card is not None and not self.card_hears():
            return b"\x01"                                                    # nobody answered: RF time-out
        if code == 0x42 and self.air is not None:
            air = bytes(self.air)
            if self.regs.get(REG_RXMODE, 0) & 0x80:
                self.chip_checked_crc += 1
                if len(air) < 3 or _crc_a(air[:-2]) != air[-2:]:
                    return b"\x02"                                            # CRC error detected by the CIU
                return b"\x00" + air[:-2]
            return b"\x00" + air
        if code in (0x40, 0x42, 0xA0):
            return b"\x00" + bytes(self.rf_rsp)
        if code in (0x46, 0x56, 0x50):
            return b"\x01"
        if code in (0x4E, 0x44, 0x52, 0x54, 0x8E, 0x94, 0x92, 0x90, 0x96, 0x98):
            return b"\x00"
        if code in (0x86, 0x88):
            return b"\x00" + bytes(self.rf_rsp)
        if code == 0x8A:
            return b"\x00\x00"
        if code == 0x8C:
            return None                       # waits for an initiator that never comes
        if code == 0x60:
            return b"\x00"
        return b"\x00" if code in CMDNAME else None

    def _read_reg(self, addr):
        if addr == REG_FIFOLEVEL:
            return min(len(self.fifo), 64)
        if addr == REG_FIFODATA:
            return self.fifo.pop(0) if self.fifo else 0
        if addr == REG_COMMIRQ:
            return self.commirq
        if addr == REG_DIVIRQ:
            return self.divirq
        return self.regs.get(addr, 0)

    def _write_reg(self, addr, val):
        if addr == REG_FIFOLEVEL and val & 0x80:         # flush; the CIU keeps receiving (AutoColl)
            self.fifo = bytearray()
            self._rx_pending = True
            return
        if addr == REG_COMMAND and val in (0x08, 0x0C):  # Receive / Transceive
            self._rx_pending = True
        if addr == REG_COMMIRQ:
            if not val & 0x80:
                self.commirq &= ~val & 0x7F
            return
        if addr == REG_FIFODATA:
            return                                       # transmit data, not kept
        self.regs[addr] = val


class FrameTransport(object):
    """What the drivers see of nfc.clf.transport.USB / TTY: write(frame), read(timeout_ms) -> bytearray."""

    def __init__(self, chip, clock, kind="USB"):
        self.chip, self.clock, self.TYPE = chip, clock, kind
        self.rx = deque()
        self.written = []            # every write since reset_log()
        self.manufacturer_name = "SimVendor"
        self.product_name = "SimProduct"
        self.port = "/dev/ttySIM"
        self.baudrate = 115200
        self.closed = False

    def reset_log(self):
        self.written = []

    def open(self, port, baudrate=115200):
        self.baudrate = baudrate

    def close(self):
        self.closed = True

    def write(self, frame):
        frame = bytes(frame)
        self.written.append(frame)
        f = self.chip.fault
        if f is not None and f.kind == "io_write" and self._is_command(frame) and self.chip.ncmd + 1 == f.at:
            self.chip.ncmd += 1
            self.chip.log.append(self._name(frame))
            raise IOError(f.arg, os.strerror(f.arg))
        self.rx.clear()              # a new command cancels whatever was pending (USB: flushed by the chip)
        self.rx.extend(self._to_chip(frame))

    def read(self, timeout=0):
        if not self.rx:
            if not timeout:
                raise SimHang("read() without timeout and nothing will ever arrive")
            self.clock.advance(timeout / 1000.0)
            raise IOError(errno.ETIMEDOUT, os.strerror(errno.ETIMEDOUT))
        x = self.rx.popleft()
        if isinstance(x, tuple):
            raise IOError(x[1], os.strerror(x[1]))
        if len(x) == 0:              # a zero length transfer is an error at the USB layer
            raise IOError(errno.EIO, os.strerror(errno.EIO))
        return bytearray(x)

    # hooks for the wrapped variants
    def _to_chip(self, frame):
        return self.chip.host_write(frame)

    def _is_command(self, frame):
        return any(k == "cmd" for k, _ in parse_host_frames(frame))

    def _name(self, frame):
        for k, p in parse_host_frames(frame):
            if k == "cmd" and len(p) > 1:
                return cmd_name(p[1], p[2:])
        return "?"


# --------------------------------------------------------------------------------------------------
class FakeSerial(object):
    """The .tty attribute the Arygon driver talks to directly (ASCII protocol of the MCU)."""

    def __init__(self, version_line=b"FF00000600V3.2\r\n"):
        self.version_line = version_line
        self.lines = deque()
        self.timeout = 0.05
        self.baudrate = 9600
        self.port = "/dev/ttySIM"
        self.wrote = []

    def write(self, data):
        data = bytes(data)
        self.wrote.append(data)
        if data == b"0av":
            self.lines.append(self.version_line)
        elif data.startswith(b"0at") or data.startswith(b"0ah"):
            self.lines.append(b"FF000000\r\n")
        elif data == b"0au":
            pass

    def readline(self):
        return self.lines.popleft() if self.lines else b""

    def flushInput(self):
        pass

    def flushOutput(self):
        pass

    def close(self):
        pass


class ByteSerial(object):
    """A serial port (pyserial look-alike) with the chip behind it: what the chip sends is a byte stream,
    read(n) returns at most n bytes and fewer when the stream ends (= the read timed out)."""

    def __init__(self, chip, clock):
        self.chip, self.clock = chip, clock
        self.buf = bytearray()
        self.timeout = 0.05
        self.baudrate = 115200
        self.port = "/dev/ttySIM"

    def write(self, data):
        for x in self.chip.host_write(bytes(data)):
            if not isinstance(x, tuple):
                self.buf += x
        return len(data)

    def read(self, n=1):
        out = bytes(self.buf[:n])
        del self.buf[:n]
        if len(out) < n:
            self.clock.advance(self.timeout or 0)
        return out

    def flushInput(self):
        del self.buf[:]

    def flushOutput(self):
        pass

    def close(self):
        pass


class ArygonTransport(FrameTransport):
    """Arygon ADRA/ADRB: TAMA frames are written as b'2' + frame; answers come back unwrapped."""

    def __init__(self, chip, clock):
        FrameTransport.__init__(self, chip, clock, "TTY")
        self.tty = FakeSerial()

    def open(self, port, baudrate=115200):
        self.tty.baudrate = baudrate

    def _to_chip(self, frame):
        if frame[:1] != b"2":
            return []
        return self.chip.host_write(frame[1:])

    def _is_command(self, frame):
        return frame[:1] == b"2" and FrameTransport._is_command(self, frame[1:])

    def _name(self, frame):
        return FrameTransport._name(self, frame[1:])


# --------------------------------------------------------------------------------------------------
def ccid_rsp(data, status=0x81):
    n = len(data)
    return bytes([0x80, n & 255, n >> 8 & 255, n >> 16 & 255, n >> 24 & 255, 0, 0, 0, status, 0]) + bytes(data)


class Acr122Transport(FrameTransport):
    """ACR122U: CCID bulk messages; the PN532 is reached with the pseudo APDU FF 00 00 00 Lc <D4 ..>.
    The reader answers with the chip's response payload D5 .. followed by 90 00 (no ACK on this link)."""

    VERSION = b"ACR122U203"

    def __init__(self, chip, clock):
        FrameTransport.__init__(self, chip, clock, "USB")
        self.product_name = "ACR122U PICC Interface"
        self.manufacturer_name = "ACS"
        self.apdus = []              # (header fields, apdu) of every CCID message written

    def _is_command(self, frame):
        return len(frame) >= 17 and frame[0] == 0x6F and frame[10:14] == b"\xff\x00\x00\x00" and frame[15] == 0xD4

    def _name(self, frame):
        return cmd_name(frame[16], frame[17:])

    def _to_chip(self, frame):
        if len(frame) < 10:
            return []
        if frame[0] == 0x62:
            return [ccid_rsp(b"\x3b\x00", 0x00)]
        if frame[0] != 0x6F:
            return []
        n = int.from_bytes(frame[1:5], "little")
        apdu = frame[10:]
        if n != len(apdu):
            return [ccid_rsp(b"\x63\x00")]
        self.apdus.append(apdu)
        if apdu[:3] == b"\xff\x00\x48":
            return [ccid_rsp(self.VERSION, 0x02)]
        if apdu[:3] == b"\xff\x00\x51":
            return [ccid_rsp(b"\x7f")]
        if apdu[:3] == b"\xff\x00\x40":
            return [ccid_rsp(b"\x90\x02")]
        if apdu[:6] == ACK:
            return [ccid_rsp(b"\x90\x00")]
        if apdu[:4] == b"\xff\x00\x00\x00" and len(apdu) >= 7 and apdu[4] == len(apdu) - 5 and apdu[5] == 0xD4:
            return self._exec(apdu[6], apdu[7:])
        return [ccid_rsp(b"\x63\x00")]

    def _exec(self, code, data):
        f, rsp = self.chip.execute(code, data)
        good = ccid_rsp(bytes([0xD5, (code + 1) & 255]) + bytes(rsp or b"") + b"\x90\x00")
        if f is None or f.kind in ("status", "regval"):
            return [good] if rsp is not None else []
        k = f.kind
        if k in ("noack", "badack", "timeout"):
            return []                                    # nothing from the chip: the reader stays silent
        if k == "io_read":
            return [("raise", f.arg)]
        if k == "errframe":
            return [ccid_rsp(b"\x7f\x90\x00")]
        if k == "raw":
            return [bytes(f.arg)]
        if k in ("cutbody", "cutbodyx"):                 # consistent CCID header (dwLength = what is left)
            if rsp is None:
                return []
            return [ccid_rsp(cut_body(bytes([0xD5, (code + 1) & 255]) + bytes(rsp) + b"\x90\x00", f.arg))]
        if k == "wrongcode":
            return [ccid_rsp(bytes([0xD5, (code + 3) & 255]) + bytes(rsp or b"") + b"\x90\x00")]
        if k == "short":
            return [good[:f.arg] if f.arg >= 0 else good[:len(good) + f.arg]]
        if k == "badsum":                                # no checksum in CCID: the length field is off by one
            b = bytearray(good)
            b[1] = (b[1] + 1) & 255
            return [bytes(b)]
        raise AssertionError(k)

    @staticmethod
    def _payload(frame):
        if frame[3:5] == b"\xff\xff":
            return frame[8:-2]
        return frame[5:-2]
