"""CRC_A / CRC_B as the simulated cards compute them (ISO/IEC 14443-3 Annex B, written from the
standard's byte-wise sample code, not from nfcpy; only used to build *valid* simulated answers --
the oracle of C14 is the TLA+ module Crc14443)."""


def _update(ch, crc):
    ch = (ch ^ (crc & 0xFF)) & 0xFF
    ch = (ch ^ (ch << 4)) & 0xFF
    return ((crc >> 8) ^ (ch << 8) ^ (ch << 3) ^ (ch >> 4)) & 0xFFFF


def crc_a(data):
    crc = 0x6363
    for b in data:
        crc = _update(b, crc)
    return crc


def crc_b(data):
    crc = 0xFFFF
    for b in data:
        crc = _update(b, crc)
    return ~crc & 0xFFFF


def crc_a_bytes(data):
    c = crc_a(data)
    return bytes([c & 0xFF, c >> 8])


def crc_b_bytes(data):
    c = crc_b(data)
    return bytes([c & 0xFF, c >> 8])
