"""Simulated NXP NTAG21x (NTAG210/212/213/215/216) password protection.  No nfcpy code inside.

From the NTAG213/215/216 data sheet: GET_VERSION (60h), READ (30h, 16 bytes with roll-over to page 0),
WRITE (A2h), PWD_AUTH (1Bh: PWD equal -> PACK, else NAK), configuration pages CFG0 (.., AUTH0),
CFG1 (ACCESS: PROT 80h, CFGLCK 40h), PWD, PACK (both read back as zero); pages >= AUTH0 need the
authenticated state for WRITE (and for READ when PROT is set); every NAK returns the tag to IDLE
(it stays mute until it is activated again), as does an unsupported command.  Changed configuration
(AUTH0, PROT, PWD, PACK) becomes effective with the next activation (the values are latched at power-up).
"""

MODELS = {          # name: (version answer, pages, cfg page)
    "NTAG210": (bytes.fromhex("0004040101000b03"), 20, 16),
    "NTAG212": (bytes.fromhex("0004040101000e03"), 41, 37),
    "NTAG213": (bytes.fromhex("0004040201000f03"), 45, 41),
    "NTAG215": (bytes.fromhex("0004040201001103"), 135, 131),
    "NTAG216": (bytes.fromhex("0004040201001303"), 231, 227),
}
ACK = b"\x0a"


class SimNtag21x(object):
    def __init__(self, model="NTAG213", uid=bytes.fromhex("04112233445566"), pwd=b"\xff\xff\xff\xff",
                 pack=b"\x00\x00", auth0=0xFF, prot=False, nak_as_timeout=True):
        self.model = model
        self.version, self.npages, self.cfg = MODELS[model]
        self.uid = bytes(uid)
        self.mem = bytearray(4 * self.npages)
        bcc0 = 0x88 ^ uid[0] ^ uid[1] ^ uid[2]
        bcc1 = uid[3] ^ uid[4] ^ uid[5] ^ uid[6]
        self.mem[0:9] = uid[0:3] + bytes([bcc0]) + uid[3:7] + bytes([bcc1])
        self.mem[9] = 0x48
        self.mem[12:16] = b"\xe1\x10" + bytes([(self.cfg - 5) * 4 // 8 & 0xFF, 0])
        self.mem[16:20] = b"\x03\x00\xfe\x00"
        c = 4 * self.cfg
        self.mem[c:c + 4] = bytes([0x04, 0x00, 0x00, auth0])
        self.mem[c + 4:c + 8] = bytes([0x80 if prot else 0x00, 0, 0, 0])
        self.mem[c + 8:c + 12] = pwd
        self.mem[c + 12:c + 16] = bytes(pack) + b"\x00\x00"
        self.nak_as_timeout = nak_as_timeout
        self.authenticated = False
        self.mute = False
        self.log = []
        self._latch()

    def _latch(self):
        c = 4 * self.cfg
        self.eff_auth0 = self.mem[c + 3]
        self.eff_prot = bool(self.mem[c + 4] & 0x80)
        self.eff_cfglck = bool(self.mem[c + 4] & 0x40)
        self.eff_pwd = bytes(self.mem[c + 8:c + 12])
        self.eff_pack = bytes(self.mem[c + 12:c + 14])

    # -- harness side ----------------------------------------------------------------------------
    @property
    def pwd(self):
        c = 4 * self.cfg
        return bytes(self.mem[c + 8:c + 12])

    @property
    def pack(self):
        c = 4 * self.cfg
        return bytes(self.mem[c + 12:c + 14])

    @property
    def auth0(self):
        return self.mem[4 * self.cfg + 3]

    @property
    def prot(self):
        return bool(self.mem[4 * self.cfg + 4] & 0x80)

    def key6(self):
        return self.pwd + self.pack

    def activate(self):
        """REQA/anticollision/SELECT: back to ACTIVE, authentication state lost."""
        self.mute = False
        self.authenticated = False
        self._latch()
        self.log.append(("activate",))

    # -- commands --------------------------------------------------------------------------------
    def _nak(self, code=0x00):
        self.mute = True
        self.authenticated = False
        return None if self.nak_as_timeout else bytes([code])

    def process(self, cmd):
        """-> response bytes, or None for no answer (mute / passive NAK)."""
        cmd = bytes(cmd)
        if self.mute or not cmd:
            return None
        c = cmd[0]
        if c == 0x60 and len(cmd) == 1:
            self.log.append(("version",))
            return self.version
        if c == 0x30 and len(cmd) == 2:
            return self._read(cmd[1])
        if c == 0xA2 and len(cmd) == 6:
            return self._write(cmd[1], cmd[2:6])
        if c == 0x1B and len(cmd) == 5:
            self.log.append(("pwd_auth", cmd[1:5].hex()))
            if cmd[1:5] == self.eff_pwd:
                self.authenticated = True
                return self.eff_pack
            return self._nak(0x04)
        if c == 0x3C and len(cmd) == 2:
            return bytes(32)
        self.log.append(("unsupported", cmd.hex()))
        return self._nak(0x00)

    def _protected(self, page):
        return page >= self.eff_auth0 and not self.authenticated

    def _read(self, page):
        if page >= self.npages or (self.eff_prot and self._protected(page)):
            return self._nak(0x00)
        out = bytearray()
        limit = self.npages if not (self.eff_prot and not self.authenticated) else min(self.npages, self.eff_auth0)
        p = page
        for _ in range(4):
            if p >= limit:
                p = 0
            d = bytearray(self.mem[4 * p:4 * p + 4])
            if p == self.cfg + 2:
                d[:] = bytes(4)            # PWD never readable
            if p == self.cfg + 3:
                d[0:2] = bytes(2)          # PACK never readable
            out += d
            p += 1
        self.log.append(("read", page))
        return bytes(out)

    def _write(self, page, data):
        if page < 2 or page >= self.npages or self._protected(page):
            return self._nak(0x00)
        if page in (self.cfg, self.cfg + 1) and self.eff_cfglck:
            return self._nak(0x00)     # CFGLCK
        if page == 2:
            for i in (2, 3):
                self.mem[8 + i] |= data[i]
        elif page == 3:
            for i in range(4):
                self.mem[12 + i] |= data[i]
        else:
            self.mem[4 * page:4 * page + 4] = data
        self.log.append(("write", page))
        return ACK
