"""DES and two-key triple DES written from the FIPS 46-3 tables (independent of pyDes; no nfcpy code).

Blocks are handled as 64-bit integers; bit 1 of the standard is the most significant bit.
Used only by the simulated FeliCa Lite / Lite-S tags (sim/auth_felica.py) as the MAC oracle.
"""

IP = [58, 50, 42, 34, 26, 18, 10, 2, 60, 52, 44, 36, 28, 20, 12, 4,
      62, 54, 46, 38, 30, 22, 14, 6, 64, 56, 48, 40, 32, 24, 16, 8,
      57, 49, 41, 33, 25, 17, 9, 1, 59, 51, 43, 35, 27, 19, 11, 3,
      61, 53, 45, 37, 29, 21, 13, 5, 63, 55, 47, 39, 31, 23, 15, 7]

FP = [40, 8, 48, 16, 56, 24, 64, 32, 39, 7, 47, 15, 55, 23, 63, 31,
      38, 6, 46, 14, 54, 22, 62, 30, 37, 5, 45, 13, 53, 21, 61, 29,
      36, 4, 44, 12, 52, 20, 60, 28, 35, 3, 43, 11, 51, 19, 59, 27,
      34, 2, 42, 10, 50, 18, 58, 26, 33, 1, 41, 9, 49, 17, 57, 25]

E = [32, 1, 2, 3, 4, 5, 4, 5, 6, 7, 8, 9, 8, 9, 10, 11, 12, 13, 12, 13, 14, 15, 16, 17,
     16, 17, 18, 19, 20, 21, 20, 21, 22, 23, 24, 25, 24, 25, 26, 27, 28, 29, 28, 29, 30, 31, 32, 1]

P = [16, 7, 20, 21, 29, 12, 28, 17, 1, 15, 23, 26, 5, 18, 31, 10,
     2, 8, 24, 14, 32, 27, 3, 9, 19, 13, 30, 6, 22, 11, 4, 25]

PC1 = [57, 49, 41, 33, 25, 17, 9, 1, 58, 50, 42, 34, 26, 18, 10, 2, 59, 51, 43, 35, 27, 19, 11, 3, 60, 52, 44, 36,
       63, 55, 47, 39, 31, 23, 15, 7, 62, 54, 46, 38, 30, 22, 14, 6, 61, 53, 45, 37, 29, 21, 13, 5, 28, 20, 12, 4]

PC2 = [14, 17, 11, 24, 1, 5, 3, 28, 15, 6, 21, 10, 23, 19, 12, 4, 26, 8, 16, 7, 27, 20, 13, 2,
       41, 52, 31, 37, 47, 55, 30, 40, 51, 45, 33, 48, 44, 49, 39, 56, 34, 53, 46, 42, 50, 36, 29, 32]

SHIFTS = [1, 1, 2, 2, 2, 2, 2, 2, 1, 2, 2, 2, 2, 2, 2, 1]

S = [
    [[14, 4, 13, 1, 2, 15, 11, 8, 3, 10, 6, 12, 5, 9, 0, 7],
     [0, 15, 7, 4, 14, 2, 13, 1, 10, 6, 12, 11, 9, 5, 3, 8],
     [4, 1, 14, 8, 13, 6, 2, 11, 15, 12, 9, 7, 3, 10, 5, 0],
     [15, 12, 8, 2, 4, 9, 1, 7, 5, 11, 3, 14, 10, 0, 6, 13]],
    [[15, 1, 8, 14, 6, 11, 3, 4, 9, 7, 2, 13, 12, 0, 5, 10],
     [3, 13, 4, 7, 15, 2, 8, 14, 12, 0, 1, 10, 6, 9, 11, 5],
     [0, 14, 7, 11, 10, 4, 13, 1, 5, 8, 12, 6, 9, 3, 2, 15],
     [13, 8, 10, 1, 3, 15, 4, 2, 11, 6, 7, 12, 0, 5, 14, 9]],
    [[10, 0, 9, 14, 6, 3, 15, 5, 1, 13, 12, 7, 11, 4, 2, 8],
     [13, 7, 0, 9, 3, 4, 6, 10, 2, 8, 5, 14, 12, 11, 15, 1],
     [13, 6, 4, 9, 8, 15, 3, 0, 11, 1, 2, 12, 5, 10, 14, 7],
     [1, 10, 13, 0, 6, 9, 8, 7, 4, 15, 14, 3, 11, 5, 2, 12]],
    [[7, 13, 14, 3, 0, 6, 9, 10, 1, 2, 8, 5, 11, 12, 4, 15],
     [13, 8, 11, 5, 6, 15, 0, 3, 4, 7, 2, 12, 1, 10, 14, 9],
     [10, 6, 9, 0, 12, 11, 7, 13, 15, 1, 3, 14, 5, 2, 8, 4],
     [3, 15, 0, 6, 10, 1, 13, 8, 9, 4, 5, 11, 12, 7, 2, 14]],
    [[2, 12, 4, 1, 7, 10, 11, 6, 8, 5, 3, 15, 13, 0, 14, 9],
     [14, 11, 2, 12, 4, 7, 13, 1, 5, 0, 15, 10, 3, 9, 8, 6],
     [4, 2, 1, 11, 10, 13, 7, 8, 15, 9, 12, 5, 6, 3, 0, 14],
     [11, 8, 12, 7, 1, 14, 2, 13, 6, 15, 0, 9, 10, 4, 5, 3]],
    [[12, 1, 10, 15, 9, 2, 6, 8, 0, 13, 3, 4, 14, 7, 5, 11],
     [10, 15, 4, 2, 7, 12, 9, 5, 6, 1, 13, 14, 0, 11, 3, 8],
     [9, 14, 15, 5, 2, 8, 12, 3, 7, 0, 4, 10, 1, 13, 11, 6],
     [4, 3, 2, 12, 9, 5, 15, 10, 11, 14, 1, 7, 6, 0, 8, 13]],
    [[4, 11, 2, 14, 15, 0, 8, 13, 3, 12, 9, 7, 5, 10, 6, 1],
     [13, 0, 11, 7, 4, 9, 1, 10, 14, 3, 5, 12, 2, 15, 8, 6],
     [1, 4, 11, 13, 12, 3, 7, 14, 10, 15, 6, 8, 0, 5, 9, 2],
     [6, 11, 13, 8, 1, 4, 10, 7, 9, 5, 0, 15, 14, 2, 3, 12]],
    [[13, 2, 8, 4, 6, 15, 11, 1, 10, 9, 3, 14, 5, 0, 12, 7],
     [1, 15, 13, 8, 10, 3, 7, 4, 12, 5, 6, 11, 0, 14, 9, 2],
     [7, 11, 4, 1, 9, 12, 14, 2, 0, 6, 10, 13, 15, 3, 5, 8],
     [2, 1, 14, 7, 4, 10, 8, 13, 15, 12, 9, 0, 3, 5, 6, 11]],
]


def _permute(v, width, table):
    """bit i (1 = most significant of a `width`-bit value) of the output is bit table[i-1] of v."""
    out = 0
    for src in table:
        out = (out << 1) | ((v >> (width - src)) & 1)
    return out


def _rol28(v, n):
    return ((v << n) | (v >> (28 - n))) & 0xFFFFFFF


_schedule_cache = {}


def key_schedule(key8):
    key8 = bytes(key8)
    ks = _schedule_cache.get(key8)
    if ks is None:
        cd = _permute(int.from_bytes(key8, "big"), 64, PC1)
        c, d = cd >> 28, cd & 0xFFFFFFF
        ks = []
        for s in SHIFTS:
            c, d = _rol28(c, s), _rol28(d, s)
            ks.append(_permute((c << 28) | d, 56, PC2))
        if len(_schedule_cache) > 4096:
            _schedule_cache.clear()
        _schedule_cache[key8] = ks
    return ks


def _f(r, k):
    x = _permute(r, 32, E) ^ k
    out = 0
    for i in range(8):
        six = (x >> (42 - 6 * i)) & 0x3F
        row = ((six >> 4) & 2) | (six & 1)
        col = (six >> 1) & 0xF
        out = (out << 4) | S[i][row][col]
    return _permute(out, 32, P)


def _crypt(block, ks):
    v = _permute(block, 64, IP)
    l, r = v >> 32, v & 0xFFFFFFFF
    for k in ks:
        l, r = r, l ^ _f(r, k)
    return _permute((r << 32) | l, 64, FP)


def des_encrypt(key8, block8):
    return _crypt(int.from_bytes(bytes(block8), "big"), key_schedule(key8)).to_bytes(8, "big")


def des_decrypt(key8, block8):
    return _crypt(int.from_bytes(bytes(block8), "big"), key_schedule(key8)[::-1]).to_bytes(8, "big")


def tdes2_encrypt(k1, k2, block8):
    """two-key triple DES, EDE: E_k1(D_k2(E_k1(x)))."""
    return des_encrypt(k1, des_decrypt(k2, des_encrypt(k1, block8)))


def xor8(a, b):
    return bytes(x ^ y for x, y in zip(a, b))


def selftest():
    # worked example widely reproduced with the standard
    assert des_encrypt(bytes.fromhex("133457799BBCDFF1"), bytes.fromhex("0123456789ABCDEF")).hex() == "85e813540f0ab405"
    assert des_decrypt(bytes.fromhex("133457799BBCDFF1"), bytes.fromhex("85E813540F0AB405")).hex() == "0123456789abcdef"
    # NBS validation vectors (variable plaintext / variable key known answers)
    assert des_encrypt(bytes.fromhex("0101010101010101"), bytes.fromhex("8000000000000000")).hex() == "95f8a5e5dd31d900"
    assert des_encrypt(bytes.fromhex("8001010101010101"), bytes(8)).hex() == "95a8d72813daa94d"
    assert des_encrypt(bytes.fromhex("0123456789ABCDEF"), b"Now is t").hex() == "3fa40e8a984d4815"
    return True
