"""A serial line BELOW nfc.clf.transport.TTY: a pyserial-style module object and a stateful port with a
device behind it (no nfcpy code in here).

The device emits whole messages (frames, or text lines of the Arygon MCU); each message travels as a list of
chunks [(bytes, gap)], gap = number of read timeouts that elapse before the chunk arrives (0 = it is there as
soon as somebody looks).  read(n) returns n bytes, or - when fewer than n arrive before the timeout - what has
arrived (possibly nothing), exactly like pyserial with a timeout.  flushInput() drops what HAS arrived; chunks
still travelling survive it.  write(data) hands the bytes to the firmware, whose answers are emitted at once.
faults: ("sw", i): "timeout" makes the i-th write (1-based) raise SerialTimeoutException.
Everything is appended to `log`:  emit(b) / sr(n, got, tv) / rl(got) / flush(dropped) / sw(n, h, r).
"""
import zlib

from .chip_pn53x import SimHang, FrameTransport


def crc(b):
    return zlib.crc32(bytes(b)) & 0x7FFFFFFF


class SerialException(IOError):
    pass


class SerialTimeoutException(SerialException):
    pass


class Pn53xFirmware(object):
    """PN532 on its HSU: wake-up preamble tolerated, ACK + response frame per command (sim/chip_pn53x.py)."""

    def __init__(self, chip, clock):
        self.ft = FrameTransport(chip, clock, "TTY")
        self.received = []

    def on_bytes(self, data):
        self.received.append(bytes(data))
        self.ft.write(bytes(data))
        out = [bytes(x) for x in self.ft.rx if not isinstance(x, tuple)]
        self.ft.rx.clear()
        return out


class ArygonFirmware(object):
    """Arygon ADRB: ASCII commands of the MCU ('0av' version, '0at05'/'0ah05' baud rates, '0au' reset) and
    TAMA frames prefixed with '2'; TAMA answers come back without any envelope."""

    def __init__(self, chip, clock, version_line=b"FF00000600V3.2\r\n"):
        self.ft = FrameTransport(chip, clock, "TTY")
        self.version_line = version_line
        self.received = []

    def on_bytes(self, data):
        data = bytes(data)
        self.received.append(data)
        if data == b"0av":
            return [self.version_line]
        if data.startswith(b"0at") or data.startswith(b"0ah"):
            return [b"FF000000\r\n"]
        if data[:1] == b"2":
            self.ft.write(data[1:])
            out = [bytes(x) for x in self.ft.rx if not isinstance(x, tuple)]
            self.ft.rx.clear()
            return out
        return []


class RawFirmware(object):
    """Records what the host wrote; the test emits the device's frames by hand (Port.emit)."""

    def __init__(self):
        self.received = []

    def on_bytes(self, data):
        self.received.append(bytes(data))
        return []


def whole(frame, index):
    return [(bytes(frame), 0)]


class Port(object):
    """serial.Serial look-alike.  One object per port name; re-opening keeps the device."""

    def __init__(self, name, clock, firmware, chunker=whole):
        self.port = name
        self.clock, self.firmware, self.chunker = clock, firmware, chunker
        self.baudrate = 9600
        self.timeout = None
        self.is_open = False
        self.inbuf = bytearray()
        self.wire = []               # [[bytes, gap], ...] still travelling
        self.log = []
        self.faults = {}
        self.nsw = 0
        self.nemit = 0
        self.opened = []

    # -- device side ------------------------------------------------------------------------------
    def emit(self, frame, chunks=None):
        frame = bytes(frame)
        self.nemit += 1
        chunks = chunks if chunks is not None else self.chunker(frame, self.nemit)
        assert b"".join(c for c, _ in chunks) == frame
        self.log.append(dict(e="emit", b=list(frame)))
        self.wire += [[bytes(c), int(g)] for c, g in chunks if len(c)]

    def _absorb(self):
        while self.wire and self.wire[0][1] <= 0:
            self.inbuf += self.wire.pop(0)[0]

    # -- pyserial API -----------------------------------------------------------------------------
    @property
    def in_waiting(self):
        self._absorb()
        return len(self.inbuf)

    def _tv(self):
        return -1 if self.timeout is None else int(round(self.timeout * 1000))

    def _wait(self):
        """one read timeout elapses: the next travelling chunk comes one period closer"""
        if self.timeout is None:
            raise SimHang("blocking serial read and nothing will ever arrive")
        self.clock.advance(self.timeout)
        if self.wire:
            self.wire[0][1] -= 1

    def read(self, size=1):
        self._absorb()
        if len(self.inbuf) < size:
            self._wait()             # what arrives after the timeout is for the next call
        out = bytes(self.inbuf[:size])
        del self.inbuf[:size]
        self.log.append(dict(e="sr", n=int(size), got=len(out), tv=self._tv()))
        return out

    def readline(self):
        self._absorb()
        k = self.inbuf.find(b"\n")
        if k < 0:
            self._wait()
            k = len(self.inbuf) - 1
        out = bytes(self.inbuf[:k + 1])
        del self.inbuf[:k + 1]
        self.log.append(dict(e="rl", got=len(out)))
        return out

    def write(self, data):
        data = bytes(data)
        self.nsw += 1
        ev = dict(e="sw", n=len(data), h=crc(data), r="ok")
        self.log.append(ev)
        if self.faults.get(("sw", self.nsw)) == "timeout":
            ev["r"] = "timeout"
            raise SerialTimeoutException("Write timeout")
        for f in self.firmware.on_bytes(data):
            self.emit(f)
        return len(data)

    def flushInput(self):
        self._absorb()
        self.log.append(dict(e="flush", dropped=len(self.inbuf)))
        del self.inbuf[:]

    reset_input_buffer = flushInput

    def flushOutput(self):
        pass

    reset_output_buffer = flushOutput

    def flush(self):
        pass

    def close(self):
        self.is_open = False


class _ListPorts(object):
    def __init__(self, mod):
        self.mod = mod

    def comports(self):
        return [(name, "sim", "sim") for name in sorted(self.mod.ports)]


class _Tools(object):
    def __init__(self, mod):
        self.list_ports = _ListPorts(mod)


class SerialModule(object):
    """Stands in for the `serial` module (nfc.clf.transport.serial)."""
    SerialException = SerialException
    SerialTimeoutException = SerialTimeoutException

    def __init__(self):
        self.ports = {}
        self.tools = _Tools(self)

    def add(self, port):
        self.ports[port.port] = port
        return port

    def Serial(self, port=None, baudrate=9600, timeout=None, **kw):
        if port not in self.ports:
            raise SerialException(2, "could not open port %s" % port)
        p = self.ports[port]
        p.baudrate, p.timeout, p.is_open = baudrate, timeout, True
        p.opened.append((baudrate, timeout))
        return p
