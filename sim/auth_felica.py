"""Simulated FeliCa Lite (RC-S965) / FeliCa Lite-S (RC-S966) tag.  No nfcpy code inside.

Written from the FeliCa Lite / Lite-S user's manual rules:
  * block data is little endian: the 8-byte DES input/output/key values are the block bytes reversed;
  * session key  SK1 = 3DES[CK1,CK2](RC1), SK2 = 3DES[CK1,CK2](RC2 xor SK1)      (CBC, IV 0);
  * MAC (block 81h, read): CBC-MAC over the 8-byte halves of the block data read before the MAC block,
    IV = RC1, key (SK1, SK2);
  * MAC_A (block 91h, Lite-S): first plaintext word = block numbers (read: 2 bytes each, padded FFh;
    write: WCNT[0..2], 00, block number, 00, 91h, 00); read key (SK1, SK2), write key (SK2, SK1);
  * the card derives the session key when RC is written and keeps it until RC is written again;
  * Lite-S: writing RC clears EXT_AUTH; a MAC_A write of STATE with EXT_AUTH = 1 authenticates the
    reader; WCNT counts successful writes.
The DES primitive is sim/auth_des.py (FIPS 46-3 tables).
"""
from .auth_des import tdes2_encrypt, xor8

RC, MAC, ID, D_ID, SER_C, SYS_C, CKV, CK, MC = 0x80, 0x81, 0x82, 0x83, 0x84, 0x85, 0x86, 0x87, 0x88
WCNT, MAC_A, STATE, CRC_CHECK = 0x90, 0x91, 0x92, 0xA0
REG = 0x0E


def rev(b):
    return bytes(b)[::-1]


def session_key(ck_block, rc_block):
    """(SK1, SK2) as DES values from the CK and RC *block contents*."""
    ck1, ck2 = rev(ck_block[0:8]), rev(ck_block[8:16])
    rc1, rc2 = rev(rc_block[0:8]), rev(rc_block[8:16])
    sk1 = tdes2_encrypt(ck1, ck2, rc1)
    sk2 = tdes2_encrypt(ck1, ck2, xor8(rc2, sk1))
    return sk1, sk2


def cbc_mac(words, k1, k2, iv):
    """words: 8-byte DES values; returns the final 8-byte DES value."""
    c = iv
    for w in words:
        c = tdes2_encrypt(k1, k2, xor8(w, c))
    return c


def mac_read(data, ck_block, rc_block):
    """content of the first 8 bytes of the MAC block for `data` (concatenated block data)."""
    sk1, sk2 = session_key(ck_block, rc_block)
    words = [rev(data[i:i + 8]) for i in range(0, len(data), 8)]
    return rev(cbc_mac(words, sk1, sk2, rev(rc_block[0:8])))


def mac_a_read(block_numbers, data, ck_block, rc_block):
    sk1, sk2 = session_key(ck_block, rc_block)
    first = b"".join(bytes([n, 0]) for n in block_numbers)
    first = (first + b"\xff" * 8)[:8]
    words = [rev(first)] + [rev(data[i:i + 8]) for i in range(0, len(data), 8)]
    return rev(cbc_mac(words, sk1, sk2, rev(rc_block[0:8])))


def mac_a_write(wcnt3, block_number, data16, ck_block, rc_block):
    sk1, sk2 = session_key(ck_block, rc_block)
    first = bytes(wcnt3) + bytes([0, block_number, 0, MAC_A, 0])
    words = [rev(first), rev(data16[0:8]), rev(data16[8:16])]
    return rev(cbc_mac(words, sk2, sk1, rev(rc_block[0:8])))


class SimFelicaLite(object):
    """kind: "lite" (IC code F0h) or "lites" (IC code F1h)."""

    def __init__(self, kind="lite", idm=bytes.fromhex("0102030405060708"), ck=bytes(16), user=None,
                 ndef_system=True):
        assert kind in ("lite", "lites")
        self.kind = kind
        self.idm = bytes(idm)
        self.pmm = bytes([0x00, 0xF0 if kind == "lite" else 0xF1]) + b"\xff" * 6
        self.mem = {}
        for b in list(range(0x00, 0x0F)) + [RC, MAC, ID, D_ID, SER_C, SYS_C, CKV, CK, MC]:
            self.mem[b] = bytearray(16)
        if kind == "lites":
            for b in (WCNT, MAC_A, STATE, CRC_CHECK):
                self.mem[b] = bytearray(16)
        self.mem[ID][0:8] = self.idm            # ID block: IDd = IDm, rest user defined
        self.mem[D_ID][0:8] = self.idm
        self.mem[D_ID][8:16] = self.pmm
        self.mem[SYS_C][0:2] = b"\x88\xb4"
        self.mem[MC][0:5] = b"\xff\xff\xff\x01\x07"      # all RW, system blocks RW, NDEF system on
        if not ndef_system:
            self.mem[MC][3] = 0
        self.set_ck_natural(ck)
        if user:
            for b, v in user.items():
                self.mem[b][:] = v
        self.ext_auth = False
        self.rc_written = False
        self.sess_ck = bytes(self.mem[CK])     # card key the running session was derived from
        self.log = []          # (command name, details) per processed frame

    # -- provisioning helpers (harness side) -------------------------------------------------
    def set_ck_natural(self, key16):
        """key16 in the order a reader-side key string has (K[0..15]); block holds each half reversed."""
        key16 = bytes(key16)
        self.mem[CK][:] = rev(key16[0:8]) + rev(key16[8:16])

    def ck_natural(self):
        c = bytes(self.mem[CK])
        return rev(c[0:8]) + rev(c[8:16])

    @property
    def sys_locked(self):
        return self.mem[MC][2] != 0xFF

    @property
    def wcnt(self):
        return int.from_bytes(self.mem[WCNT][0:3], "little") if self.kind == "lites" else 0

    # -- frame level -------------------------------------------------------------------------
    def sensf_res(self):
        return b"\x01" + self.idm + self.pmm + b"\x88\xb4"

    def process(self, cmd):
        """cmd: bytes incl. length byte.  Returns response bytes or None (no answer)."""
        cmd = bytes(cmd)
        if len(cmd) < 2 or cmd[0] != len(cmd):
            return None
        code = cmd[1]
        if code == 0x00:
            return self._polling(cmd[2:])
        if len(cmd) < 10 or cmd[2:10] != self.idm:
            return None
        body = cmd[10:]
        if code == 0x06:
            rsp = self._read(body)
        elif code == 0x08:
            rsp = self._write(body)
        else:
            return None
        rsp = bytes([code + 1]) + self.idm + rsp
        return bytes([len(rsp) + 1]) + rsp

    def _polling(self, body):
        if len(body) != 4:
            return None
        sc = body[0:2]
        ok = all(a == 0xFF or a == b for a, b in zip(sc, b"\x88\xb4"))
        if not ok and self.mem[MC][3] & 1:
            ok = all(a == 0xFF or a == b for a, b in zip(sc, b"\x12\xfc"))
            sysc = b"\x12\xfc"
        else:
            sysc = b"\x88\xb4"
        if not ok:
            return None
        self.log.append(("polling", sc.hex()))
        rsp = b"\x01" + self.idm + self.pmm + (sysc if body[2] == 1 else b"")
        return bytes([len(rsp) + 1]) + rsp

    @staticmethod
    def _parse_lists(body):
        """-> (service codes, block numbers, rest) or None."""
        if len(body) < 1:
            return None
        ns = body[0]
        if ns < 1 or len(body) < 1 + 2 * ns + 1:
            return None
        services = [int.from_bytes(body[1 + 2 * i:3 + 2 * i], "little") for i in range(ns)]
        p = 1 + 2 * ns
        nb = body[p]
        p += 1
        blocks = []
        for _ in range(nb):
            if p >= len(body):
                return None
            if body[p] & 0x80:
                if p + 2 > len(body):
                    return None
                blocks.append(body[p + 1])
                p += 2
            else:
                if p + 3 > len(body):
                    return None
                blocks.append(body[p + 1] | body[p + 2] << 8)
                p += 3
        return services, blocks, body[p:]

    @staticmethod
    def _err(s1, s2):
        return bytes([s1, s2])

    def _read(self, body):
        pl = self._parse_lists(body)
        if pl is None:
            return self._err(0xFF, 0xA1)
        services, blocks, rest = pl
        if rest or services != [0x000B]:
            return self._err(0xFF, 0xA6)
        if not 1 <= len(blocks) <= 4:
            return self._err(0xFF, 0xA2)
        out = b""
        names = []
        for i, b in enumerate(blocks):
            if b not in self.mem or b == CK:
                return self._err(1 << i, 0xA8)
            if b in (MAC, MAC_A):
                if i != len(blocks) - 1 or (b == MAC_A and self.kind != "lites"):
                    return self._err(1 << i, 0xA8)
                if b == MAC:
                    m = mac_read(out, self.sess_ck, self.mem[RC])
                    out += m + bytes(8)
                else:
                    m = mac_a_read(blocks, out, self.sess_ck, self.mem[RC])
                    out += m + bytes(self.mem[WCNT][0:3]) + bytes(5)
                names.append(b)
                continue
            if b < 0x0E and self.kind == "lites":
                restr = int.from_bytes(self.mem[MC][6:8], "little")
                if restr >> b & 1 and not self.ext_auth:
                    return self._err(1 << i, 0xB1)
            if b == RC:
                out += bytes(16)
            elif b == STATE:
                out += bytes([1 if self.ext_auth else 0]) + bytes(15)
            else:
                out += bytes(self.mem[b])
            names.append(b)
        self.log.append(("read", tuple(blocks)))
        return b"\x00\x00" + bytes([len(blocks)]) + out

    def _writable_plain(self, b):
        mc = self.mem[MC]
        if b <= 0x0E:
            if not int.from_bytes(mc[0:2], "little") >> b & 1:
                return False
            if self.kind == "lites" and b < 0x0E:
                if int.from_bytes(mc[8:10], "little") >> b & 1 and not self.ext_auth:
                    return False
                if int.from_bytes(mc[10:12], "little") >> b & 1:
                    return False          # needs MAC_A
            return True
        if b == RC:
            return True
        if b in (ID, SER_C, SYS_C, CKV, CK):
            return mc[2] == 0xFF
        if b == MC:
            return mc[2] == 0xFF
        if b == STATE and self.kind == "lites":
            return False                  # only with MAC_A
        return False

    def _writable_mac(self, b):
        mc = self.mem[MC]
        if b < 0x0E:
            if not int.from_bytes(mc[0:2], "little") >> b & 1:
                return False
            if int.from_bytes(mc[8:10], "little") >> b & 1 and not self.ext_auth:
                return False
            return True
        if b == STATE:
            return True
        if b in (CK, CKV):
            return mc[2] == 0xFF or bool(mc[5] & 1)
        return False

    def _write(self, body):
        pl = self._parse_lists(body)
        if pl is None:
            return self._err(0xFF, 0xA1)
        services, blocks, data = pl
        if services != [0x0009]:
            return self._err(0xFF, 0xA6)
        if len(data) != 16 * len(blocks):
            return self._err(0xFF, 0xA2)
        if len(blocks) == 1:
            b = blocks[0]
            if b not in self.mem or not self._writable_plain(b):
                self.log.append(("write-refused", b))
                return self._err(0x01, 0xA8)
            self._store(b, data)
            self.log.append(("write", b))
            return b"\x00\x00"
        if len(blocks) == 2 and blocks[1] == MAC_A and self.kind == "lites":
            b = blocks[0]
            if b not in self.mem or not self._writable_mac(b):
                self.log.append(("write-refused", b))
                return self._err(0x01, 0xA8)
            d, ma = data[0:16], data[16:32]
            good = mac_a_write(self.mem[WCNT][0:3], b, d, self.sess_ck, self.mem[RC])
            if not self.rc_written or ma[0:8] != good or ma[8:11] != bytes(self.mem[WCNT][0:3]):
                self.log.append(("write-mac-refused", b))
                return self._err(0x02, 0xB2)
            self._store(b, d)
            self.log.append(("write-mac", b))
            return b"\x00\x00"
        return self._err(0xFF, 0xA2)

    def _store(self, b, data):
        if b == RC:
            self.mem[RC][:] = data
            self.sess_ck = bytes(self.mem[CK])
            self.rc_written = True
            self.ext_auth = False
            return
        if b == STATE:
            self.ext_auth = bool(data[0] & 1)
        else:
            self.mem[b][:] = data
        if self.kind == "lites":
            n = min(self.wcnt + 1, 0xFFFFFF)
            self.mem[WCNT][0:3] = n.to_bytes(3, "little")
