"""Simulated Sony RC-S380 (NFC Port-100) behind a frame-level USB transport (no nfcpy code in here).

Host frames: 00 00 FF FF FF LENlo LENhi LCS <D6 code data..> DCS 00 ; answers D7 code+1 .. ; ACK 00 00 FF 00 FF 00.
Fault script as in chip_pn53x (Fault(at, kind, arg)); additional kind "comm" (arg = 32-bit communication
status word of InCommRF / TgCommRF).
"""
from .chip_pn53x import ACK, NAK, FrameTransport, damage, cut_body

CMDNAME = {
    0x00: "InSetRF", 0x02: "InSetProtocol", 0x04: "InCommRF", 0x06: "SwitchRF", 0x10: "MaintainFlash",
    0x12: "ResetDevice", 0x20: "GetFirmwareVersion", 0x22: "GetPDDataVersion", 0x24: "GetProperty",
    0x26: "InGetProtocol", 0x28: "GetCommandType", 0x2A: "SetCommandType", 0x30: "InSetRCT",
    0x32: "InGetRCT", 0x34: "GetPDData", 0x36: "ReadRegister", 0x40: "TgSetRF", 0x42: "TgSetProtocol",
    0x44: "TgSetAuto", 0x46: "TgSetRFOff", 0x48: "TgCommRF", 0x50: "TgGetProtocol", 0x60: "TgSetRCT",
    0x62: "TgGetRCT", 0xF0: "Diagnose",
}

# the communication status flags of InCommRF / TgCommRF, in the order used for bit masks in fault scripts
COMM_FLAGS = (
    ("PROTOCOL_ERROR", 0x00000001), ("PARITY_ERROR", 0x00000002), ("CRC_ERROR", 0x00000004),
    ("COLLISION_ERROR", 0x00000008), ("OVERFLOW_ERROR", 0x00000010), ("TEMPERATURE_ERROR", 0x00000040),
    ("RECEIVE_TIMEOUT_ERROR", 0x00000080), ("CRYPTO1_ERROR", 0x00000100), ("RFCA_ERROR", 0x00000200),
    ("RF_OFF_ERROR", 0x00000400), ("TRANSMIT_TIMEOUT_ERROR", 0x00000800), ("RECEIVE_LENGTH_ERROR", 0x80000000),
)


def comm_status(mask):
    """bit i of mask selects COMM_FLAGS[i] -> 32-bit status word"""
    w = 0
    for i, (_, v) in enumerate(COMM_FLAGS):
        if mask >> i & 1:
            w |= v
    return w


# InSetRF (NFC Port-100 command reference; the repository's own driver transcripts show the same bytes): the command
# carries <send RF setting, send speed, receive RF setting, receive speed>, per bit rate / technology
IN_SET_RF = {"212F": (1, 1, 15, 1), "424F": (1, 2, 15, 2), "106A": (2, 3, 15, 3), "212A": (4, 4, 15, 4),
             "424A": (5, 5, 15, 5), "106B": (3, 7, 15, 7), "212B": (3, 8, 15, 8), "424B": (3, 9, 15, 9)}
# InSetProtocol items (number: name) that decide whether a frame is understood on the air
P_ADD_PARITY, P_CHECK_PARITY, P_ADD_SOF, P_CHECK_SOF, P_ADD_EOF, P_CHECK_EOF = 0x04, 0x05, 0x09, 0x0A, 0x0B, 0x0C


def frame(payload):
    n = len(payload)
    lo, hi = n & 255, n >> 8
    return (b"\x00\x00\xff\xff\xff" + bytes([lo, hi, (256 - lo - hi) & 255]) + bytes(payload) +
            bytes([(256 - sum(payload)) & 255, 0]))


def parse(buf):
    """-> ("ack",None) | ("cmd", payload) | ("bad", raw)"""
    buf = bytes(buf)
    if buf == ACK:
        return "ack", None
    if buf[:5] != b"\x00\x00\xff\xff\xff" or len(buf) < 10:
        return "bad", buf
    n = buf[5] | buf[6] << 8
    if (buf[5] + buf[6] + buf[7]) & 255 or len(buf) != n + 10:
        return "bad", buf
    body = buf[8:8 + n]
    if (sum(body) + buf[8 + n]) & 255 or buf[9 + n] != 0 or n < 2 or body[0] != 0xD6:
        return "bad", buf
    return "cmd", body


class SimRcs380(object):
    def __init__(self):
        self.rf_rsp = b""            # data received from the remote device
        self.tg_head = b"\x0b\x00\x03"   # TgCommRF: bit rate 106A, ?, passive flags
        # C14, CRC ownership: `air` = the card's answer on the air INCLUDING CRC_A; InCommRF then honours the
        # InSetProtocol setting check_crc (item 02h): 1 -> verified and stripped by the chip (CRC_ERROR status
        # if wrong), 0 -> the raw frame, CRC bytes included, goes to the host
        self.air = None
        self.check_crc = 1
        self.chip_checked_crc = 0
        # optional remote device in the field that talks ONE bit rate / technology (C13, target variants):
        # card = dict(send="212B", recv="212B").  InCommRF sends as InSetRF / InSetProtocol configured: a device that
        # does not understand the frame stays silent (RECEIVE_TIMEOUT_ERROR).
        self.card = None
        self.rf = None               # data of the last InSetRF
        self.proto = {}              # item number -> value, from all InSetProtocol commands
        self.log = []
        self.frames = []
        self.fault = None
        self.ncmd = 0

    def arm(self, fault=None):
        self.fault = fault
        self.ncmd = 0
        self.log = []
        self.frames = []

    def host_write(self, data):
        kind, body = parse(data)
        if kind != "cmd":
            return []                 # ACK = abort / soft reset; garbage is ignored
        return self._command(body[1], body[2:])

    def _frame(self, code, rsp):
        return frame(bytes([0xD7, (code + 1) & 255]) + bytes(rsp))

    def _command(self, code, data):
        self.ncmd += 1
        self.log.append(CMDNAME.get(code, "%02X" % code))
        self.frames.append(bytes([0xD6, code]) + bytes(data))
        f = self.fault if (self.fault is not None and self.fault.at == self.ncmd) else None
        rsp = self._default(code, data)
        if f is None:
            return [ACK, self._frame(code, rsp)]
        k = f.kind
        if k == "noack":
            return []
        if k == "badack":
            return [NAK]
        if k == "timeout":
            return [ACK]
        if k == "io_read":
            return [ACK, ("raise", f.arg)]
        if k == "io_ack":
            return [("raise", f.arg)]
        if k == "errframe":
            return [ACK, b"\x00\x00\xff\xff\xff"]
        if k == "raw":
            return [ACK, bytes(f.arg)]
        if k == "cutbody":                                  # well-formed frame, payload D7 code data cut to k bytes
            return [ACK, frame(cut_body(bytes([0xD7, (code + 1) & 255]) + bytes(rsp), f.arg))]
        if k == "status":
            return [ACK, self._frame(code, bytes([f.arg]) + bytes(rsp[1:]))]
        if k == "comm" and f.arg == 0:
            return [ACK, self._frame(code, rsp)]
        if k == "comm":
            w = int(f.arg).to_bytes(4, "little")
            if code == 0x04:
                rsp = w                                     # error status only, as the chip reports it
            elif code == 0x48:
                rsp = bytes(rsp[:3]) + w
            return [ACK, self._frame(code, rsp)]
        if k == "wrongcode":
            return [ACK, self._frame((code + 2) & 0xFE, rsp)]
        return [ACK, damage(self._frame(code, rsp), f)]

    def card_hears(self):
        c = self.card
        want = IN_SET_RF[c["send"]][0:2] + IN_SET_RF[c["recv"]][2:4]
        if self.rf is None or tuple(self.rf[:4]) != want:
            return False
        tech = c["send"][-1]
        parity = self.proto.get(P_ADD_PARITY, 0) == 1 and self.proto.get(P_CHECK_PARITY, 0) == 1
        noparity = self.proto.get(P_ADD_PARITY, 0) == 0 and self.proto.get(P_CHECK_PARITY, 0) == 0
        sofeof = all(self.proto.get(i, 0) == 1 for i in (P_ADD_SOF, P_CHECK_SOF, P_ADD_EOF, P_CHECK_EOF))
        nosofeof = all(self.proto.get(i, 0) == 0 for i in (P_ADD_SOF, P_CHECK_SOF, P_ADD_EOF, P_CHECK_EOF))
        if tech == "A":
            return parity and nosofeof
        if tech == "B":
            return noparity and sofeof
        return noparity and nosofeof

    def _default(self, code, data):
        if code == 0x00:
            self.rf = bytes(data)
        if code == 0x02:
            for i in range(0, len(data) - 1, 2):
                self.proto[data[i]] = data[i + 1]
                if data[i] == 0x02:
                    self.check_crc = data[i + 1]
        if code == 0x04 and self.card is not None and not self.card_hears():
            return b"\x80\x00\x00\x00"                                     # RECEIVE_TIMEOUT_ERROR
        if code == 0x04 and self.air is not None:
            from .chip_crc import crc_a_bytes
            air = bytes(self.air)
            if self.check_crc:
                self.chip_checked_crc += 1
                if len(air) < 3 or crc_a_bytes(air[:-2]) != air[-2:]:
                    return b"\x04\x00\x00\x00"                             # CRC_ERROR
                return b"\x00\x00\x00\x00\x08" + air[:-2]
            return b"\x00\x00\x00\x00\x08" + air
        if code == 0x04:
            return b"\x00\x00\x00\x00\x08" + bytes(self.rf_rsp)
        if code == 0x48:
            return bytes(self.tg_head) + b"\x00\x00\x00\x00" + bytes(self.rf_rsp)
        if code == 0x20:
            return b"\x11\x01"
        if code == 0x22:
            return b"\x00\x01"
        if code == 0x28:
            return b"\x00\x00\x00\x00\x00\x00\x00\x03"
        return b"\x00"


class Rcs380Transport(FrameTransport):
    def __init__(self, chip, clock):
        FrameTransport.__init__(self, chip, clock, "USB")
        self.manufacturer_name = "SONY"
        self.product_name = "RC-S380/P"

    def _is_command(self, frame):
        return parse(frame)[0] == "cmd"

    def _name(self, frame):
        k, b = parse(frame)
        return CMDNAME.get(b[1], "%02X" % b[1]) if k == "cmd" else "?"
