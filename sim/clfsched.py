"""Deterministic baton scheduler for the C15 harness (application threads sharing one frontend).

Logical threads are real Python threads, but exactly one holds the baton.  The running thread hands the
baton back at every *scheduling point* (lock acquire / release, every driver-call boundary, sleep) and a
`plan` decides who continues.  `OwnerLock` replaces the frontend's threading.Lock: same interface, the
owner is known, and a thread that finds the lock taken is parked until the owner releases it.
No nfcpy code in here.

    sch = Baton(plan)                       plan: RandomPlan(seed) | RunLengthPlan([(thread, n|None), ...])
    lock = OwnerLock(sch, on_event)         on_event("Acq"/"Rel", thread name)
    sch.spawn("A", fn); sch.spawn("B", fn); sch.run()
"""
import random
import threading as _th


class Abort(BaseException):
    """raised inside logical threads when a run is torn down (deadlock / step limit)"""


class SchedError(RuntimeError):
    pass


class _LT(object):
    def __init__(self, name, fn):
        self.name, self.fn = name, fn
        self.sem = _th.Semaphore(0)
        self.state = "ready"      # ready | blocked | done
        self.waiting_for = None
        self.exc = None
        self.real = None
        self.points = 0


class RandomPlan(object):
    def __init__(self, seed, stick=0.5):
        self.rnd = random.Random(seed)
        self.stick = stick

    def choose(self, enabled, cur):
        if cur in enabled and self.rnd.random() < self.stick:
            return cur
        return self.rnd.choice(enabled)


class RunLengthPlan(object):
    """[(name, n), ...]: let thread `name` pass n scheduling points (None: until it finishes or blocks for
    good), then go to the next directive; after the last directive: lowest name first."""

    def __init__(self, directives):
        self.d = [list(x) for x in directives]

    def choose(self, enabled, cur):
        names = {t.name: t for t in enabled}
        while self.d:
            name, n = self.d[0]
            if n is not None and n <= 0:
                self.d.pop(0)
                continue
            t = names.get(name)
            if t is None:
                # finished -> next directive; blocked -> someone else must run first
                if name in self._done:
                    self.d.pop(0)
                    continue
                break
            if n is not None:
                self.d[0][1] = n - 1
            return t
        return sorted(enabled, key=lambda t: t.name)[0]

    _done = ()


class Baton(object):
    def __init__(self, plan, max_points=20000):
        self.plan = plan
        self.threads = []
        self.cur = None
        self.ctl = _th.Semaphore(0)
        self.aborting = False
        self.points = 0
        self.max_points = max_points
        self.deadlock = None
        self.schedule = []        # names in the order they were given the baton (for replay / evidence)

    def spawn(self, name, fn):
        t = _LT(name, fn)
        self.threads.append(t)
        return t

    def me(self):
        t = self.cur
        if t is None or t.real is not _th.current_thread():
            raise SchedError("scheduling point reached outside a logical thread")
        return t

    def _boot(self, t):
        t.sem.acquire()
        try:
            if not self.aborting:
                t.fn()
        except Abort:
            pass
        except BaseException as e:          # noqa - reported by the harness
            t.exc = e
        finally:
            t.state = "done"
            self._dispatch()

    def _enabled(self):
        out = []
        for t in self.threads:
            if t.state == "ready":
                out.append(t)
            elif t.state == "blocked" and t.waiting_for.owner is None:
                out.append(t)
        return out

    def _dispatch(self):
        if self.aborting:
            self._abort_all()
            return
        en = self._enabled()
        if not en:
            if all(t.state == "done" for t in self.threads):
                self.cur = None
                self.ctl.release()
                return
            self.deadlock = {t.name: getattr(t.waiting_for, "name", "?") for t in self.threads if t.state != "done"}
            self.aborting = True
            self._abort_all()
            return
        self.points += 1
        if self.points > self.max_points:
            self.deadlock = {"step-limit": self.points}
            self.aborting = True
            self._abort_all()
            return
        if hasattr(self.plan, "_done"):
            self.plan._done = {t.name for t in self.threads if t.state == "done"}
        nxt = self.plan.choose(en, self.cur if (self.cur in en) else None)
        self.cur = nxt
        self.schedule.append(nxt.name)
        nxt.sem.release()

    def _abort_all(self):
        live = [t for t in self.threads if t.state != "done"]
        if not live:
            self.cur = None
            self.ctl.release()
            return
        t = live[0]
        self.cur = t
        t.sem.release()

    def point(self):
        """scheduling point: give the baton back and wait to get it again"""
        me = self.me()
        me.points += 1
        self._dispatch()
        me.sem.acquire()
        if self.aborting:
            raise Abort()

    def run(self, timeout=60):
        for t in self.threads:
            t.real = _th.Thread(target=self._boot, args=(t,), daemon=True, name="lt-" + t.name)
            t.real.start()
        self._dispatch()
        if not self.ctl.acquire(timeout=timeout):
            self.aborting = True
            raise SchedError("scheduler run timed out (a logical thread blocked outside the scheduler?)")
        for t in self.threads:
            t.real.join(5)
        if self.deadlock:
            raise SchedError("deadlock / limit: %r" % (self.deadlock,))


class OwnerLock(object):
    """threading.Lock look-alike whose owner is known to the scheduler (not re-entrant, like the real one)"""
    name = "clf.lock"

    def __init__(self, sch, on_event=None):
        self.sch = sch
        self.owner = None
        self.on_event = on_event

    def acquire(self, blocking=True, timeout=-1):
        sch = self.sch
        me = sch.me()
        sch.point()                               # preemption before the acquire
        while self.owner is not None:
            if self.owner is me:
                raise SchedError("thread %s re-acquires the non re-entrant frontend lock" % me.name)
            if not blocking:
                return False
            me.state, me.waiting_for = "blocked", self
            sch.point()
        me.state, me.waiting_for = "ready", None
        self.owner = me
        if self.on_event:
            self.on_event("Acq", me.name)
        return True

    def release(self):
        me = self.sch.me()
        if self.owner is not me:
            raise SchedError("release of a lock not owned")
        if self.on_event:
            self.on_event("Rel", me.name)
        self.owner = None
        try:
            self.sch.point()                      # preemption after the release
        except Abort:
            raise

    def locked(self):
        return self.owner is not None

    def held_by_current(self):
        t = self.sch.cur
        return self.owner is not None and self.owner is t

    def __enter__(self):
        self.acquire()
        return True

    def __exit__(self, *a):
        self.release()
        return False
